// C12 — projection views (element_transformed, static/const casts, member_cast, reinterpret_array_cast) at every E1 state, for every index tuple,
// through mutable AND const access paths, plus composition with view operations and construction of arrays from the projections.
//   -DONLY_RANK=<1..3>  -DPJ_ELEM=<0: int elements | 1: struct S{int a,b,c} elements>
#include "../engine/view_model.hpp"
#include "../engine/view_oracle.hpp"

using namespace vm;

#ifndef PJ_ELEM
#define PJ_ELEM 0
#endif
struct S { int a, b, c; };
struct W { int v; };
struct P1 { int x; };        // a third of S
struct P2 { int x, y; };     // two thirds of S: sizeof(S)/sizeof(P2) is not integral, admissible when every stride is even
#if PJ_ELEM == 0
using Elem = int;
static Elem mk_elem(idx i) { return static_cast<int>(1000 + i); }
#else
using Elem = S;
static Elem mk_elem(idx i) { return S{static_cast<int>(1000 + i), static_cast<int>(2000 + i), static_cast<int>(3000 + i)}; }
#endif

static long g_checks = 0;
struct Fail { std::string oracle, detail; };

template<class V, std::size_t... I> decltype(auto) at(V&& v, idx const* t, std::index_sequence<I...>) { return std::forward<V>(v)(t[I]...); }
template<class V> decltype(auto) at_br(V&& v, idx const* t) { if constexpr(rank_of<V> == 1) { return v[t[0]]; } else { return at_br(v[t[0]], t + 1); } }

// generic: every index tuple of model m, compare projected view pv against expectation exp(off) (value) and, when addr != nullptr, address
template<class PV, class ExpV>
bool all_values(PV&& pv, MView const& m, ExpV&& exp, std::string& why) {
	constexpr int R = rank_of<PV>;
	if(m.rank() != R) { why = "rank"; return false; }
	auto sz = vo::tup_vec_impl(pv.sizes(), std::make_index_sequence<static_cast<std::size_t>(R)>{});
	for(int j = 0; j < R; ++j) { if(sz[static_cast<std::size_t>(j)] != m.d[static_cast<std::size_t>(j)].size) { why = "extents of the projection differ from the source's"; return false; } }
	bool ok = true;
	for_each_index(m, [&](std::vector<idx> const& t, idx off) {
		if(!ok) { return; }
		++g_checks;
		if(!(at(pv, t.data(), std::make_index_sequence<static_cast<std::size_t>(R)>{}) == exp(off))) { ok = false; why = "value at " + tup_str(t) + " (call syntax)"; return; }
		if(!(at_br(pv, t.data()) == exp(off))) { ok = false; why = "value at " + tup_str(t) + " (brackets)"; }
	});
	return ok;
}
static long g_nonintegral = 0;
template<class PV, class ExpA>
bool all_addresses(PV&& pv, MView const& m, ExpA&& expa, std::string& why) {
	constexpr int R = rank_of<PV>;
	if(m.rank() != R) { why = "rank"; return false; }
	auto sz = vo::tup_vec_impl(pv.sizes(), std::make_index_sequence<static_cast<std::size_t>(R)>{});
	for(int j = 0; j < R; ++j) { if(sz[static_cast<std::size_t>(j)] != m.d[static_cast<std::size_t>(j)].size) { why = "extents of the projection differ from the source's"; return false; } }
	bool ok = true;
	for_each_index(m, [&](std::vector<idx> const& t, idx off) {
		if(!ok) { return; }
		++g_checks;
		if(static_cast<void const*>(std::addressof(at_br(pv, t.data()))) != static_cast<void const*>(expa(off))) { ok = false; why = "address at " + tup_str(t); }
	});
	return ok;
}

// model of one more view op applied to a projection (composition)
static MView after(MView m, Op o) { m_apply(m, o); return m; }

template<class V>
std::vector<Fail> check_projections(V&& v, MView const& m, Elem* data, idx N) {
	std::vector<Fail> bad; (void)N;
	constexpr int R = rank_of<V>;
	constexpr bool RO = is_ro_v<V>;
	// views reached through some const paths carry a pointer-to-const element pointer; member_cast / reinterpret_array_cast / static_array_cast do not compile for those on this tree (api gap, listed in the evidence)
	constexpr bool CPTR = std::is_const_v<std::remove_pointer_t<typename std::decay_t<V>::element_ptr>>;
	std::string why;
	auto F = [&](std::string o) { bad.push_back(Fail{std::move(o), why}); };
	bool const nonempty = !m.has_empty_dim();
#if PJ_ELEM == 0
	// --- element_transformed with a by-value function: lazy, evaluated at access time
	{
		mc::cur_phase("element_transformed(value)");
		auto tv = v.element_transformed([](int x) { return 3*x + 1; });
		if(!all_values(tv, m, [&](idx off) { return 3*data[off] + 1; }, why)) { F("element_transformed(by-value f)"); }
		if(nonempty) {   // modify the source between two reads
			for(idx i = 0; i < N; ++i) { data[i] += 7; }
			if(!all_values(tv, m, [&](idx off) { return 3*data[off] + 1; }, why)) { F("element_transformed is not evaluated at access time"); }
			for(idx i = 0; i < N; ++i) { data[i] -= 7; }
			// composition with the view algebra
			if(!all_values(tv.rotated(), after(m, mk(ROTATED)), [&](idx off) { return 3*data[off] + 1; }, why)) { F("element_transformed(f).rotated()"); }
			if(!all_values(tv(), m, [&](idx off) { return 3*data[off] + 1; }, why)) { F("element_transformed(f)()"); }
			if(m.d[0].size >= 2) { if(!all_values(tv.sliced(m.d[0].first + 1, m.d[0].first + m.d[0].size), after(m, mk(SLICED, m.d[0].first + 1, m.d[0].first + m.d[0].size)), [&](idx off) { return 3*data[off] + 1; }, why)) { F("element_transformed(f).sliced(a,b)"); } }
			if constexpr(R >= 2) { if(!all_values(tv[m.d[0].first + m.d[0].size - 1], after(m, mk(INDEX, m.d[0].first + m.d[0].size - 1)), [&](idx off) { return 3*data[off] + 1; }, why)) { F("element_transformed(f)[i]"); }
			                       if(!all_values(tv.transposed(), after(m, mk(TRANSPOSED)), [&](idx off) { return 3*data[off] + 1; }, why)) { F("element_transformed(f).transposed()"); } }
			// iteration over the projection in BOTH directions and by jumps (the projecting pointer type has its own ++/--/+=/-=): elements() range and, for 1-D views, begin()/end()
			{
				std::vector<int> want; for_each_index(m, [&](std::vector<idx> const&, idx off) { want.push_back(3*data[off] + 1); });
				idx const N = static_cast<idx>(want.size()); bool ok = true;
				auto walk_both = [&](auto b, auto e, char const* what) {
					if(e - b != N) { ok = false; why = std::string(what) + ": end-begin"; return; }
					{ auto it = b; for(idx k = 0; k < N && ok; ++k, ++it) { ++g_checks; if(*it != want[static_cast<std::size_t>(k)]) { ok = false; why = std::string(what) + ": forward ++ at " + std::to_string(k); } } }
					{ auto it = e; for(idx k = N; k-- > 0 && ok;) { --it; ++g_checks; if(*it != want[static_cast<std::size_t>(k)]) { ok = false; why = std::string(what) + ": backward -- at " + std::to_string(k); } } }
					for(idx k = 0; k < N && ok; ++k) { ++g_checks; if(*(e - (N - k)) != want[static_cast<std::size_t>(k)]) { ok = false; why = std::string(what) + ": end-(n-k) at " + std::to_string(k); } auto it = e; it -= (N - k); if(ok && *it != want[static_cast<std::size_t>(k)]) { ok = false; why = std::string(what) + ": -= at " + std::to_string(k); } if(ok && *(b + k) != want[static_cast<std::size_t>(k)]) { ok = false; why = std::string(what) + ": begin+k at " + std::to_string(k); } }
					if(ok && N > 0) { auto rb = std::make_reverse_iterator(e); for(idx k = N; k-- > 0 && ok; ++rb) { ++g_checks; if(*rb != want[static_cast<std::size_t>(k)]) { ok = false; why = std::string(what) + ": reverse_iterator at " + std::to_string(k); } } }
				};
				{ auto&& er = tv.elements(); walk_both(er.begin(), er.end(), "elements() of the projection"); }
				if constexpr(R == 1) { if(ok) { walk_both(tv.begin(), tv.end(), "begin()/end() of the 1-D projection"); } }
				if(!ok) { F("element_transformed(f): iteration"); }
			}
			// array from the projection
			multi::array<int, R> c(tv);
			if(!all_values(c, [&] { MView z = m; z.base = 0; return z; }(), [&](idx) { return 0; }, why) && false) {}
			std::vector<int> got, want; for(idx i = 0; i < c.num_elements(); ++i) { got.push_back(c.data_elements()[i]); } for_each_index(m, [&](std::vector<idx> const&, idx off) { want.push_back(3*data[off] + 1); });
			if(got != want || !(c.extensions() == v.extensions())) { why = "array constructed from the projection"; F("array(element_transformed(f))"); }
		}
	}
	// --- casts that keep element identity
	if constexpr(!CPTR) {
		mc::cur_phase("static_array_cast<int, int const*>");
		auto&& sc = v.template static_array_cast<int, int const*>();
		if(!all_addresses(sc, m, [&](idx off) { return data + off; }, why)) { F("static_array_cast<T const>"); }
		static_assert(std::is_const_v<std::remove_reference_t<decltype(at_br(sc, static_cast<idx const*>(nullptr)))>>, "static_array_cast<T const> must yield const elements");
		if constexpr(R >= 2) {
			mc::cur_phase("as_const");
			auto&& ac = v.as_const();
			if(!all_addresses(ac, m, [&](idx off) { return data + off; }, why)) { F("as_const()"); }
			static_assert(std::is_const_v<std::remove_reference_t<decltype(at_br(ac, static_cast<idx const*>(nullptr)))>>, "as_const() must yield const elements");
			mc::cur_phase("const_array_cast");
			auto&& cc = v.template const_array_cast<int>();
			if(!all_addresses(cc, m, [&](idx off) { return data + off; }, why)) { F("const_array_cast<T>()"); }
		}
		if(nonempty) { if(!all_addresses(sc.rotated(), after(m, mk(ROTATED)), [&](idx off) { return data + off; }, why)) { F("static_array_cast<T const>(v).rotated()"); } }
	}
	// --- same-size reinterpretation
	if constexpr(!CPTR) {
		mc::cur_phase("reinterpret_array_cast<W>()");
		auto&& rw = v.template reinterpret_array_cast<W>();
		if(!all_addresses(rw, m, [&](idx off) { return data + off; }, why)) { F("reinterpret_array_cast<U>() (same size)"); }
		if(nonempty) {
			if(!all_values(v.template reinterpret_array_cast<W>().element_transformed([](W const& w) { return w.v; }), m, [&](idx off) { return data[off]; }, why)) { F("reinterpret_array_cast<U>() values"); }
			if(m.d[0].size >= 2) { if(!all_addresses(rw.sliced(m.d[0].first, m.d[0].first + 1), after(m, mk(SLICED, m.d[0].first, m.d[0].first + 1)), [&](idx off) { return data + off; }, why)) { F("reinterpret_array_cast<U>().sliced(a,b)"); } }
		}
	}
	// --- array of a convertible element type
	if(nonempty) {
		mc::cur_phase("array<long>(view)");
		multi::array<long, R> c(v); std::vector<long> got, want; for(idx i = 0; i < c.num_elements(); ++i) { got.push_back(c.data_elements()[i]); } for_each_index(m, [&](std::vector<idx> const&, idx off) { want.push_back(data[off]); });
		if(got != want || !(c.extensions() == v.extensions())) { why = "array<long> constructed from an int view"; F("array<convertible element type>(view)"); }
	}
#else
	// --- member_cast
	if constexpr(!CPTR) {
		mc::cur_phase("member_cast");
		auto&& mb = v.template member_cast<int>(&S::b);
		if(!all_addresses(mb, m, [&](idx off) { return &data[off].b; }, why)) { F("member_cast<int>(&S::b)"); }
		auto&& mcc = v.template member_cast<int>(&S::c);
		if(!all_addresses(mcc, m, [&](idx off) { return &data[off].c; }, why)) { F("member_cast<int>(&S::c)"); }
		if(nonempty) {
			if(!all_addresses(mb.rotated(), after(m, mk(ROTATED)), [&](idx off) { return &data[off].b; }, why)) { F("member_cast(...).rotated()"); }
			if(m.d[0].size >= 2) { if(!all_addresses(mb.sliced(m.d[0].first + 1, m.d[0].first + m.d[0].size), after(m, mk(SLICED, m.d[0].first + 1, m.d[0].first + m.d[0].size)), [&](idx off) { return &data[off].b; }, why)) { F("member_cast(...).sliced(a,b)"); } }
			if constexpr(R >= 2) { if(!all_addresses(mb[m.d[0].first], after(m, mk(INDEX, m.d[0].first)), [&](idx off) { return &data[off].b; }, why)) { F("member_cast(...)[i]"); } }
			multi::array<int, R> c(mb); std::vector<int> got, want; for(idx i = 0; i < c.num_elements(); ++i) { got.push_back(c.data_elements()[i]); } for_each_index(m, [&](std::vector<idx> const&, idx off) { want.push_back(data[off].b); });
			if(got != want || !(c.extensions() == v.extensions())) { why = "array constructed from member_cast"; F("array(member_cast)"); }
		}
	}
	// --- reinterpretation as a NARROWER element type, in place: integral size ratio (S -> P1) on every state; non-integral ratio (S -> P2, 12 -> 8 bytes) on the states where it is
	//     admissible (every stride even, so that every element starts on a multiple of sizeof(P2) from the base)
	if constexpr(!CPTR) {
		mc::cur_phase("reinterpret_array_cast<narrower>()");
		auto&& n1 = v.template reinterpret_array_cast<P1>();
		if(!all_addresses(n1, m, [&](idx off) { return data + off; }, why)) { F("reinterpret_array_cast<U>() (sizeof(T) = 3 sizeof(U))"); }
		bool even = true; for(auto const& dd : m.d) { if(dd.stride % 2 != 0) { even = false; } }
		if(even && nonempty) {
			auto&& n2 = v.template reinterpret_array_cast<P2>();
			if(!all_addresses(n2, m, [&](idx off) { return data + off; }, why)) { F("reinterpret_array_cast<U>() (sizeof(T) = 1.5 sizeof(U), even strides)"); }
			++g_nonintegral;
		}
	}
	// --- reinterpret with an extra trailing dimension over the element's bytes
	if constexpr(!CPTR) {
		mc::cur_phase("reinterpret_array_cast<int>(3)");
		auto&& r3 = v.template reinterpret_array_cast<int>(3);
		MView m3 = m; m3.d.push_back(MDim{0, 3, 1});
		constexpr int R3 = R + 1;
		if(rank_of<decltype(r3)> != R3) { why = "rank"; F("reinterpret_array_cast<U>(n) rank"); }
		else {
			auto sz = vo::tup_vec_impl(r3.sizes(), std::make_index_sequence<static_cast<std::size_t>(R3)>{});
			bool okx = true; for(int j = 0; j < R; ++j) { if(sz[static_cast<std::size_t>(j)] != m.d[static_cast<std::size_t>(j)].size) { okx = false; } } if(nonempty && sz.back() != 3) { okx = false; }
			if(!okx) { why = "extents"; F("reinterpret_array_cast<U>(n) extents"); }
			else {
				bool ok = true;
				for_each_index(m, [&](std::vector<idx> const& t, idx off) { for(idx k = 0; k < 3 && ok; ++k) { std::vector<idx> t3(t); t3.push_back(k); ++g_checks; if(static_cast<void const*>(std::addressof(at_br(r3, t3.data()))) != static_cast<void const*>(reinterpret_cast<int const*>(&data[off]) + k)) { ok = false; why = "address at " + tup_str(t3); } } });
				if(!ok) { F("reinterpret_array_cast<U>(n)"); }
			}
		}
	}
	// --- element_transformed with reference-returning functions: identity and write-through
	{
		mc::cur_phase("element_transformed(ref)");
		auto&& tb = v.element_transformed(&S::b);
		if(!all_values(tb, m, [&](idx off) { return data[off].b; }, why)) { F("element_transformed(&S::b)"); }
		if constexpr(!RO) {
			auto&& tr = v.element_transformed([](S& s) -> int& { return s.c; });
			if(!all_addresses(tr, m, [&](idx off) { return &data[off].c; }, why)) { F("element_transformed(reference-returning f)"); }
			if(nonempty) {
				std::vector<idx> t; for(auto const& d : m.d) { t.push_back(d.first + d.size - 1); }
				idx off = m.base; for(std::size_t j = 0; j < t.size(); ++j) { off += (t[j] - m.d[j].first)*m.d[j].stride; }
				int old = data[off].c; at_br(tr, t.data()) = 424242; ++g_checks;
				if(data[off].c != 424242) { why = "write through the projection did not reach the source element"; F("element_transformed(reference f) write-through"); }
				data[off].c = old;
			}
		}
	}
#endif
	return bad;
}

template<class Root> struct ConstRoot { Root const& r; auto operator()() const { return r(); } };

template<int D, class Root>
static void run_root_elem(Root& root, Elem* data, idx N, std::vector<idx> const& sizes, std::string const& rootname, std::string const& prefix, Config const& cfg, std::set<std::string> const& skip) {
	MView m0 = root_model(sizes);
	long nontrivial = 0, cnt = 0;
	auto st = bfs(root, m0, cfg, skip, [&](auto&& v, MView const& m, Hist const& h) -> bool {
		if(v.size() != m.d[0].size || v.num_elements() != m.num_elements()) { return false; }   // C01's business
		if(!m.has_empty_dim() && m.num_elements() >= 2) { ++nontrivial; }
		auto bad = check_projections(v, m, data, N);
		for(auto const& b : bad) {
			mc::R.violation("D" + std::to_string(m.rank()) + (is_ro_v<decltype(v)> ? "|read-only view type|" : "|mutable view type|") + b.oracle,
				mc::J().s("harness", "projmc").s("replay", prefix + hist_str(h)).s("root", rootname).s("trace", hist_str(h)).s("projection", b.oracle).s("detail", b.detail).s("model_state", key_of(m)).str());
		}
		if(h.size() >= 1 && m.num_elements() >= 3 && mc::R.samples.size() < 3 && (cnt++ % 31) == 0) { mc::R.sample(mc::J().s("root", rootname).s("trace", hist_str(h)).s("model_state", key_of(m)).str()); }
		return bad.empty();
	}, prefix);
	mc::R.add("states", st.states); mc::R.add("transitions", st.transitions); mc::R.add("distinct_nontrivial", nontrivial);
	mc::R.add("element_checks", g_checks); g_checks = 0; mc::R.add("nonintegral_ratio_casts", g_nonintegral); g_nonintegral = 0;
	if(st.capped) { mc::R.exhaustive = false; }
	mc::R.note(rootname + ": completed_depth=" + std::to_string(st.completed_depth) + " states=" + std::to_string(st.states) + " transitions=" + std::to_string(st.transitions));
}

static std::vector<std::vector<idx>> shapes(bool thorough) {
	std::vector<std::vector<idx>> s = {{4}, {0}, {2, 3}, {4, 3}, {3, 1}, {2, 3, 2}};
	if(thorough) { s.push_back({6}); s.push_back({3, 4}); s.push_back({2, 0}); s.push_back({3, 2, 2}); }
	return s;
}

int main(int argc, char** argv) {
	mc::Args args(argc, argv);
	bool thorough = args.get("tier", "quick") == "thorough";
	Config cfg; cfg.maxdepth = static_cast<int>(args.geti("depth", thorough ? 3 : 2));
	cfg.menu0.call_full = false; cfg.menu0.call_maxargs = 2; cfg.menu.call_full = false; cfg.menu.call_maxargs = 1;
	mc::set_deadline(static_cast<double>(args.geti("deadline", 3000)));
	std::string only = args.get("replay", "");
	auto body = [&](std::set<std::string> const& skip) {
		for(auto const& sh : shapes(thorough)) {
#ifdef ONLY_RANK
			if(sh.size() != ONLY_RANK) { continue; }
			constexpr int D = ONLY_RANK;
			idx N = 1; for(auto s : sh) { N *= s; }
			std::vector<Elem> buf(static_cast<std::size_t>(N + 8)); for(idx i = 0; i < N + 8; ++i) { buf[static_cast<std::size_t>(i)] = mk_elem(i - 4); }
			multi::array_ref<Elem, D> a(vo::make_extensions<D>(sh), buf.data() + 4);
			std::string nm = std::string("array_ref<") + (PJ_ELEM ? "S" : "int") + "," + std::to_string(D) + ">{";
			std::string px; for(std::size_t i = 0; i < sh.size(); ++i) { px += (i ? "x" : "") + std::to_string(sh[i]); } nm += px + "}";
			if(only.empty() || only.rfind(px + "/m/", 0) == 0) { run_root_elem<D>(a, buf.data() + 4, N, sh, nm, px + "/m/", cfg, skip); }
			ConstRoot<multi::array_ref<Elem, D>> ca{a};
			if(only.empty() || only.rfind(px + "/c/", 0) == 0) { run_root_elem<D>(ca, buf.data() + 4, N, sh, "const " + nm, px + "/c/", cfg, skip); }
#endif
		}
		mc::R.emit(stdout);
	};
	if(!only.empty()) {
		auto p = only.rfind('/'); cfg.maxdepth = static_cast<int>(parse_hist(only.substr(p + 1)).size()); std::set<std::string> none; body(none);
		int rc = 0; for(auto const& [k, v] : mc::R.viol) { if(v.second.find("\"replay\":\"" + only + "\"") != std::string::npos) { std::printf("REPLAY VIOLATION %s %s\n", k.c_str(), v.second.substr(0, 400).c_str()); rc = 1; } }
		if(!rc) { std::printf("REPLAY OK\n"); } return rc;
	}
	return mc::supervise(body);
}
