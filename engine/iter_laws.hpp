// Random-access iterator laws for begin/end, cbegin/cend, iterators of the const view and elements() ranges (C02; reused by C11/C19).
#pragma once
#include "view_model.hpp"
#include "view_oracle.hpp"

namespace il {
using namespace vm;

inline long g_laws = 0;
struct Bad { std::string fam, law, detail; };

template<class P> auto rawp(P const& p) { if constexpr(std::is_pointer_v<P>) { return p; } else { return p.verif_raw(); } }   // harness-side view of a (possibly fancy) pointer
template<class A, class B, class = void> struct mixed_eq : std::false_type {};
template<class A, class B> struct mixed_eq<A, B, std::void_t<decltype(std::declval<A const&>() == std::declval<B const&>()), decltype(std::declval<A const&>() != std::declval<B const&>())>> : std::true_type {};
template<class V> auto sub_addr(V const& s) { return rawp(s.base()); }

// address designated by dereferencing an iterator of a D-dimensional view
template<int D, class It> auto it_addr(It const& it) {
	if constexpr(D == 1) { return std::addressof(*it); } else { return rawp((*it).base()); }
}

// laws for one iterator family [b, e) of view v (n = model size); expected address of position p given by `at(p)`
template<int D, class It, class At>
void iter_laws(std::string const& fam, It b, It e, idx n, bool deref_ok, At&& at, std::vector<Bad>& bad, It const* foreign = nullptr) {
	auto B = [&](std::string const& law, std::string const& d) { bad.push_back(Bad{fam, law, d}); };
	auto S = [](idx x) { return std::to_string(x); };
	++g_laws; if(e - b != n) { B("end-begin==size", "end-begin=" + S(e - b) + " size " + S(n)); return; }
	++g_laws; if((b == e) != (n == 0)) { B("begin==end iff empty", ""); }
	++g_laws; if((b != e) != (n != 0)) { B("begin!=end iff nonempty", ""); }
	for(idx p = 0; p <= n; ++p) {
		It it = b + p;
		++g_laws; if(it - b != p) { B("(b+p)-b==p", "p=" + S(p)); }
		++g_laws; if(p + (b - it) != 0) { B("b-(b+p)==-p", "p=" + S(p)); }
		if(p < n && deref_ok) { ++g_laws; if(it_addr<D>(it) != at(p)) { B("*(begin+p) is element p", "p=" + S(p)); } }
		for(idx k = -p; k <= n - p; ++k) {
			It jt = it + k;
			++g_laws; if(jt - it != k) { B("(it+k)-it==k", "p=" + S(p) + " k=" + S(k)); }
			It kt = jt - k;
			++g_laws; if(!(kt == it)) { B("(it+k)-k==it", "p=" + S(p) + " k=" + S(k)); }
			if(p < n && deref_ok) { ++g_laws; if(it_addr<D>(kt) != at(p)) { B("(it+k)-k same position", "p=" + S(p) + " k=" + S(k)); } }
			++g_laws; if((it < jt) != (k > 0)) { B("it<jt iff jt-it>0", "p=" + S(p) + " k=" + S(k)); }
			++g_laws; if((it > jt) != (k < 0)) { B("it>jt", "p=" + S(p) + " k=" + S(k)); }
			++g_laws; if((it <= jt) != (k >= 0)) { B("it<=jt", "p=" + S(p) + " k=" + S(k)); }
			++g_laws; if((it >= jt) != (k <= 0)) { B("it>=jt", "p=" + S(p) + " k=" + S(k)); }
			++g_laws; if((it == jt) != (k == 0)) { B("it==jt iff same position", "p=" + S(p) + " k=" + S(k)); }
			++g_laws; if((it != jt) != (k != 0)) { B("it!=jt", "p=" + S(p) + " k=" + S(k)); }
			if(p + k < n && deref_ok) {
				++g_laws; if(it_addr<D>(jt) != at(p + k)) { B("*(it+k) is element p+k", "p=" + S(p) + " k=" + S(k)); }
				if constexpr(D == 1) { ++g_laws; if(std::addressof(it[k]) != at(p + k)) { B("it[k] is *(it+k)", "p=" + S(p) + " k=" + S(k)); } }
				else { ++g_laws; if(rawp(it[k].base()) != at(p + k)) { B("it[k] is *(it+k)", "p=" + S(p) + " k=" + S(k)); } ++g_laws; if(!(it[k].layout() == (*jt).layout())) { B("it[k] layout", "p=" + S(p) + " k=" + S(k)); } }
			}
			{  // += / -= round trip
				It mt = it; mt += k;
				++g_laws; if(!(mt == jt)) { B("it+=k equals it+k", "p=" + S(p) + " k=" + S(k)); }
				if(p + k < n && deref_ok) { ++g_laws; if(it_addr<D>(mt) != at(p + k)) { B("it+=k position", "p=" + S(p) + " k=" + S(k)); } }
				mt -= k;
				++g_laws; if(!(mt == it)) { B("it+=k;it-=k returns", "p=" + S(p) + " k=" + S(k)); }
				if(p < n && deref_ok) { ++g_laws; if(it_addr<D>(mt) != at(p)) { B("it+=k;it-=k same address", "p=" + S(p) + " k=" + S(k)); } }
			}
			{  // assignment over an iterator at another position
				It at_ = it; at_ = jt;
				++g_laws; if(!(at_ == jt)) { B("assigned iterator equal", "p=" + S(p) + " k=" + S(k)); }
				if(p + k < n && deref_ok) {
					++g_laws; if(it_addr<D>(at_) != at(p + k)) { B("assigned iterator same address", "p=" + S(p) + " k=" + S(k)); }
					if(p + k + 1 < n) { ++at_; ++g_laws; if(it_addr<D>(at_) != at(p + k + 1)) { B("assigned iterator advances identically", "p=" + S(p) + " k=" + S(k)); } }
				}
				// assignment over an iterator that belonged to ANOTHER view (different shape/strides) and over a value-initialised one
				for(int src = 0; src < 2; ++src) {
					if(src == 0 && !foreign) { continue; }
					It ft = src == 0 ? *foreign : It{};
					ft = jt;
					++g_laws; if(!(ft == jt)) { B("iterator assigned over a foreign/default iterator is equal", "p=" + S(p) + " k=" + S(k)); }
					if(p + k < n && deref_ok) {
						++g_laws; if(it_addr<D>(ft) != at(p + k)) { B("iterator assigned over a foreign/default iterator: same address", "p=" + S(p) + " k=" + S(k) + (src ? " default" : " foreign")); }
						if(p + k + 1 < n) {
							It f2 = ft; ++f2; ++g_laws; if(it_addr<D>(f2) != at(p + k + 1)) { B("iterator assigned over a foreign/default iterator: ++ advances identically", "p=" + S(p) + " k=" + S(k) + (src ? " default" : " foreign")); }
							It f3 = ft + 1; ++g_laws; if(it_addr<D>(f3) != at(p + k + 1)) { B("iterator assigned over a foreign/default iterator: +1 advances identically", "p=" + S(p) + " k=" + S(k) + (src ? " default" : " foreign")); }
							if constexpr(D == 1) { ++g_laws; if(std::addressof(ft[1]) != at(p + k + 1)) { B("iterator assigned over a foreign/default iterator: [1]", "p=" + S(p) + " k=" + S(k)); } }
						}
						if(p + k >= 1) { It f4 = ft; --f4; ++g_laws; if(it_addr<D>(f4) != at(p + k - 1)) { B("iterator assigned over a foreign/default iterator: -- retreats identically", "p=" + S(p) + " k=" + S(k) + (src ? " default" : " foreign")); } }
					}
				}
				It cp{jt};
				++g_laws; if(!(cp == jt)) { B("copied iterator equal", ""); }
				if(p + k < n && deref_ok) { ++g_laws; if(it_addr<D>(cp) != at(p + k)) { B("copied iterator same address", "p=" + S(p) + " k=" + S(k)); } }
			}
		}
		if(p < n) {
			It c = it; ++c; ++g_laws; if(c - it != 1) { B("++ advances by one", "p=" + S(p)); }
			if(p + 1 < n && deref_ok) { ++g_laws; if(it_addr<D>(c) != at(p + 1)) { B("++ next element", "p=" + S(p)); } }
			--c; ++g_laws; if(!(c == it)) { B("++ then -- is identity", "p=" + S(p)); }
			if(deref_ok) { ++g_laws; if(it_addr<D>(c) != at(p)) { B("++ then -- same address", "p=" + S(p)); } }
			It c2 = it; It old = c2++; ++g_laws; if(!(old == it) || c2 - it != 1) { B("post++", "p=" + S(p)); }
			It c3 = c2; It old3 = c3--; ++g_laws; if(!(old3 == c2) || !(c3 == it)) { B("post--", "p=" + S(p)); }
			if(deref_ok) { ++g_laws; if(it_addr<D>(c3) != at(p)) { B("post-- same address", "p=" + S(p)); } }
		}
		if(p > 0) {
			It c = it; --c; ++g_laws; if(it - c != 1) { B("-- retreats by one", "p=" + S(p)); }
			if(deref_ok) { ++g_laws; if(it_addr<D>(c) != at(p - 1)) { B("-- previous element", "p=" + S(p)); } }
			++c; ++g_laws; if(!(c == it)) { B("-- then ++ is identity", "p=" + S(p)); }
		}
		// route independence: an iterator's behaviour may depend only on its position, not on how it got there (an iterator can carry redundant state: linear position + index tuple).
		// The same position is reached by stepping from begin, by stepping back from end, by e-(n-p), and by stepping PAST it to end and jumping back; each must then behave like b+p.
		{
			It r1 = b; for(idx q = 0; q < p; ++q) { ++r1; }
			It r2 = e; for(idx q = n; q > p; --q) { --r2; }
			It r3 = e - (n - p);
			It r4 = b; for(idx q = 0; q < n; ++q) { ++r4; } r4 -= (n - p);
			It r5 = e; for(idx q = n; q > 0; --q) { --r5; } r5 += p;
			It const routes[5] = {r1, r2, r3, r4, r5};
			static char const* const rname[5] = {"++ from begin", "-- from end", "end-(n-p)", "++ to end then -=", "-- to begin then +="};
			for(int ri = 0; ri < 5; ++ri) {
				It const& r = routes[ri];
				++g_laws; if(!(r == it) || r - b != p) { B(std::string("route independence: position reached by ") + rname[ri] + " compares equal to begin+p", "p=" + S(p)); continue; }
				if(!deref_ok) { continue; }
				if(p < n) { ++g_laws; if(it_addr<D>(r) != at(p)) { B(std::string("route independence: *it after ") + rname[ri], "p=" + S(p)); } }
				for(idx k = -p; k < n - p; ++k) {
					It j = r + k; ++g_laws; if(it_addr<D>(j) != at(p + k)) { B(std::string("route independence: *(it+k) after ") + rname[ri], "p=" + S(p) + " k=" + S(k)); break; }
					It m2 = r; m2 += k; ++g_laws; if(it_addr<D>(m2) != at(p + k)) { B(std::string("route independence: it+=k after ") + rname[ri], "p=" + S(p) + " k=" + S(k)); break; }
					if constexpr(D == 1) { ++g_laws; if(std::addressof(r[k]) != at(p + k)) { B(std::string("route independence: it[k] after ") + rname[ri], "p=" + S(p) + " k=" + S(k)); break; } }
					else { ++g_laws; if(rawp(r[k].base()) != at(p + k)) { B(std::string("route independence: it[k] after ") + rname[ri], "p=" + S(p) + " k=" + S(k)); break; } }
				}
			}
		}
	}
}

template<class V>
std::vector<Bad> check_iters(V&& v, MView const& m, int const* data) {
	constexpr int D = rank_of<V>;
	std::vector<Bad> bad;
	idx n = m.d[0].size;
	bool const nonempty = !m.has_empty_dim();
	// expected address of the p-th position along the leading dimension
	auto lead = [&](idx p) { return data + m.base + p*m.d[0].stride; };
	// a differently shaped auxiliary array of the same rank: source of "foreign" iterators of the same static type
	static std::vector<int> auxbuf(512, 0);
	std::vector<idx> auxs(static_cast<std::size_t>(D), 2); auxs.back() = 5; if(D >= 2) { auxs.front() = 3; }
	multi::array_ref<int, D> aux(vo::make_extensions<D>(auxs), auxbuf.data() + 8);
	mc::cur_phase("begin/end");
	{
		auto fb = aux().begin() + 1; using It = decltype(v.begin());
		if constexpr(std::is_same_v<It, decltype(fb)>) { iter_laws<D>("iterator", v.begin(), v.end(), n, nonempty, lead, bad, &fb); }
		else { iter_laws<D>("iterator", v.begin(), v.end(), n, nonempty, lead, bad); }
	}
	mc::cur_phase("cbegin/cend");
	iter_laws<D>("const_iterator", v.cbegin(), v.cend(), n, nonempty, [&](idx p) { return static_cast<int const*>(lead(p)); }, bad);
	{
		auto const& cv = v;
		mc::cur_phase("const begin/end");
		iter_laws<D>("iterator-of-const-view", cv.begin(), cv.end(), n, nonempty, [&](idx p) { return static_cast<int const*>(lead(p)); }, bad);
	}
	{  // const and mutable iterators to one position compare equal; *(begin+k) is v[k]
		mc::cur_phase("const-conversion");
		for(idx p = 0; p <= n; ++p) {
			auto it = v.begin() + p;
			typename std::decay_t<V>::const_iterator ct = it;
			++g_laws; if(!(ct == v.cbegin() + p)) { bad.push_back(Bad{"const_iterator", "converted const_iterator equals cbegin+p", "p=" + std::to_string(p)}); }
			++g_laws; if(ct - v.cbegin() != p) { bad.push_back(Bad{"const_iterator", "converted const_iterator distance", "p=" + std::to_string(p)}); }
			// const and mutable iterators to one position compare equal (directly, when the mixed comparison is well-formed)
			if constexpr(mixed_eq<decltype(it), decltype(ct)>::value) {
				++g_laws; if(!(it == ct) || (it != ct)) { bad.push_back(Bad{"const_iterator", "mutable iterator == const_iterator at the same position", "p=" + std::to_string(p)}); }
				if(p > 0) { auto prev = v.begin() + (p - 1); ++g_laws; if(prev == ct) { bad.push_back(Bad{"const_iterator", "mutable iterator != const_iterator at another position", "p=" + std::to_string(p)}); } }
			}
			if(p < n && nonempty) {
				idx i = m.d[0].first + p;
				if constexpr(D == 1) { ++g_laws; if(std::addressof(*it) != std::addressof(v[i])) { bad.push_back(Bad{"iterator", "*(begin+p) is v[first+p]", "p=" + std::to_string(p)}); } }
				else {
					++g_laws; if((*it).base() != v[i].base() || !((*it).layout() == v[i].layout())) { bad.push_back(Bad{"iterator", "*(begin+p) is v[first+p]", "p=" + std::to_string(p)}); }
				}
			}
		}
	}
	// ---- elements(): canonical order computed by the model
	{
		std::vector<int const*> ref;
		for_each_index(m, [&](std::vector<idx> const&, idx off) { ref.push_back(data + off); });
		idx N = static_cast<idx>(ref.size());
		auto at = [&](idx k) { return ref[static_cast<std::size_t>(k)]; };
		mc::cur_phase("elements()");
		auto&& er = v.elements();
		++g_laws; if(er.size() != N) { bad.push_back(Bad{"elements", "elements().size()==num_elements", std::to_string(er.size()) + " vs " + std::to_string(N)}); }
		{
			auto fe = aux().elements().begin() + 3; using It = decltype(er.begin());
			if constexpr(std::is_same_v<It, decltype(fe)>) { iter_laws<1>("elements", er.begin(), er.end(), N, true, [&](idx k) { return const_cast<int*>(at(k)); }, bad, &fe); }
			else { iter_laws<1>("elements", er.begin(), er.end(), N, true, [&](idx k) { return const_cast<int*>(at(k)); }, bad); }
		}
		// assignment over an iterator of ANOTHER view of the SAME storage at the SAME position (same origin pointer, other layout): the target must take over the source's layout too
		if constexpr(D >= 2) {
			if(N > 0) {
				mc::cur_phase("elements(): assignment across views of the same storage");
				auto&& rv = v.rotated(); auto&& rr = rv.elements(); using It = decltype(er.begin());
				if constexpr(std::is_same_v<It, decltype(rr.begin())>) {
					for(idx p = 0; p <= N; ++p) {
						It ft = rr.begin() + p; It jt = er.begin() + p;
						ft = jt;
						bool okp = true;
						for(idx k = -p; k < N - p && okp; ++k) {
							++g_laws; if(std::addressof(*(ft + k)) != at(p + k) || std::addressof(ft[k]) != at(p + k)) { okp = false; bad.push_back(Bad{"elements", "iterator assigned over an iterator of another view of the same storage at the same position", "p=" + std::to_string(p) + " k=" + std::to_string(k)}); }
						}
						if(okp && p + 1 < N) { It f2 = ft; ++f2; ++g_laws; if(std::addressof(*f2) != at(p + 1)) { bad.push_back(Bad{"elements", "iterator assigned over an iterator of another view of the same storage: ++", "p=" + std::to_string(p)}); } }
						if(okp && p >= 1) { It f3 = ft; --f3; ++g_laws; if(std::addressof(*f3) != at(p - 1)) { bad.push_back(Bad{"elements", "iterator assigned over an iterator of another view of the same storage: --", "p=" + std::to_string(p)}); } }
						if(!okp) { break; }
					}
				}
			}
		}
		mc::cur_phase("celements");
		{
			auto const& cv = v; auto&& cr = cv.elements();
			auto const& caux = aux; auto fe = caux().elements().begin() + 3; using It = decltype(cr.begin());
			if constexpr(std::is_same_v<It, decltype(fe)>) { iter_laws<1>("const-elements", cr.begin(), cr.end(), N, true, at, bad, &fe); }
			else { iter_laws<1>("const-elements", cr.begin(), cr.end(), N, true, at, bad); }
		}
		mc::cur_phase("elements()[k]");
		for(idx k = 0; k < N; ++k) { ++g_laws; if(std::addressof(er[k]) != at(k)) { bad.push_back(Bad{"elements", "elements()[k] is k-th canonical element", "k=" + std::to_string(k)}); break; } }
		if(N > 0) {
			++g_laws; if(std::addressof(er.front()) != at(0)) { bad.push_back(Bad{"elements", "elements().front()", ""}); }
			++g_laws; if(std::addressof(er.back()) != at(N - 1)) { bad.push_back(Bad{"elements", "elements().back()", ""}); }
		}
	}
	return bad;
}


}  // namespace il
