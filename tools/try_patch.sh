#!/bin/bash
# usage: tools/try_patch.sh <patch.diff> <ID>[,<ID>...] [tier]  — run checks against a scratch worktree of /repo with the patch applied
set -u
PATCH=$(realpath "$1"); IDS=$2; TIER=${3:-quick}
WT=/tmp/mutwt_$$
git -C /repo worktree add --detach "$WT" HEAD >/dev/null 2>&1 || exit 3
if ! git -C "$WT" apply -3 "$PATCH" 2>/dev/null && ! git -C "$WT" apply "$PATCH"; then echo "PATCH DOES NOT APPLY"; git -C /repo worktree remove --force "$WT"; exit 3; fi
rc=0
for id in ${IDS//,/ }; do
  VERIF_REPO="$WT" python3 /verif/verif.py check "$id" --tier "$TIER" | grep -E "^(check|VIOLATION)" | cut -c1-400 | head -${MAXLINES:-12}
  [ "${PIPESTATUS[0]}" != 0 ] && rc=1
done
git -C /repo worktree remove --force "$WT"
exit $rc
