// C13 — BLAS adaptor: complete grid  operation form x element type x per-operand layout variant x sizes x scalars,
// against naive references on exactly representable data (comparison is ==; the only tolerance is stated at nrm2).
//
// Every operand lives in its own store (guard rows / padding filled with a large sentinel).  After the call:
// output == reference (read through plain indexing), every input unchanged, every store element outside the operand views unchanged.
// Outcomes: correct | rejected (C++ exception, or an assertion located in include/boost/multi) | violation.
//
// Isolation.  The enumeration runs in a parent that never calls the library; configurations are executed by forked children in batches.
// assert() is an abort, so to keep children cheap the harness supplies its own __assert_fail: a failing assertion *inside a guarded
// library call* records (file, line, expression) and siglongjmp()s back to the guard -> outcome "rejected" iff the file is under
// include/boost/multi.  Any real death of a child (SIGSEGV, SIGFPE, sanitizer report, abort from elsewhere) is attributed to the
// configuration published in shared memory before it was started, and the batch is resumed behind it.  A child that finds a violation
// reports it and exits (the next configuration starts in a fresh process).  xerbla_ is interposed as well: the reference BLAS behaviour on
// an illegal argument is "print and return", which would otherwise look like an untouched output.
#include <boost/multi/adaptors/blas.hpp>
#include <boost/multi/array.hpp>

#include <complex>
#include <csetjmp>
#include <cmath>

#include "../engine/mc_common.hpp"

namespace multi = boost::multi;
namespace blas  = multi::blas;

// ------------------------------------------------------------------------------------------------ interposition
static sigjmp_buf    g_jmp;
static volatile bool g_armed = false;
static char          g_assert[700];
static bool          g_assert_lib = false;
extern "C" [[noreturn]] void __assert_fail(char const* expr, char const* file, unsigned line, char const* /*func*/) noexcept {
	std::snprintf(g_assert, sizeof g_assert, "%s:%u: Assertion `%s' failed.", file, line, expr);
	g_assert_lib = std::strstr(file, "include/boost/multi") != nullptr;
	if(g_armed) { g_armed = false; siglongjmp(g_jmp, 1); }
	std::fprintf(stderr, "%s (outside a guarded library call)\n", g_assert);
	std::abort();
}
static int  g_xerbla = 0;
static char g_xerbla_name[8];
extern "C" void xerbla_(char const* name, int* info, int /*len*/) {
	g_xerbla = *info;
	std::snprintf(g_xerbla_name, sizeof g_xerbla_name, "%.6s", name);
}
static std::string g_exc;
// 0 = ran to completion, 1 = C++ exception, 2 = assertion in include/boost/multi, 3 = assertion elsewhere
template<class F> __attribute__((noinline)) int guarded(F&& f) {
	g_xerbla = 0;
	if(sigsetjmp(g_jmp, 0) == 0) {
		int r = 0;
		g_armed = true;
		try { f(); } catch(std::exception const& e) { g_exc = e.what(); r = 1; } catch(...) { g_exc = "non-std exception"; r = 1; }
		g_armed = false;
		return r;
	}
	return g_assert_lib ? 2 : 3;
}

// ------------------------------------------------------------------------------------------------ element types, scalars
template<class T> struct is_cx : std::false_type {};
template<class R> struct is_cx<std::complex<R>> : std::true_type {};
template<class T> struct real_of { using type = T; };
template<class R> struct real_of<std::complex<R>> { using type = R; };
template<class T> using real_t = typename real_of<T>::type;
template<class T> char const* tname() {
	if constexpr(std::is_same_v<T, float>) { return "float"; } else if constexpr(std::is_same_v<T, double>) { return "double"; }
	else if constexpr(std::is_same_v<T, std::complex<float>>) { return "complex<float>"; } else { return "complex<double>"; }
}
template<class T> char const* tcode() {
	if constexpr(std::is_same_v<T, float>) { return "s"; } else if constexpr(std::is_same_v<T, double>) { return "d"; }
	else if constexpr(std::is_same_v<T, std::complex<float>>) { return "c"; } else { return "z"; }
}
template<class T> T mk(long re, long im) { if constexpr(is_cx<T>{}) { return T(static_cast<real_t<T>>(re), static_cast<real_t<T>>(im)); } else { (void)im; return static_cast<T>(re); } }
template<class T> T cj(T v) { if constexpr(is_cx<T>{}) { return std::conj(v); } else { return v; } }
template<class T> std::string vstr(T v) {
	char b[96];
	if constexpr(is_cx<T>{}) { std::snprintf(b, sizeof b, "(%.9g,%.9g)", static_cast<double>(v.real()), static_cast<double>(v.imag())); } else { std::snprintf(b, sizeof b, "%.9g", static_cast<double>(v)); }
	return b;
}
// scalar alphabet: 0, 1, 2, i, 1+2i   (the last two only for complex element types)
static char const* const sc_name[] = {"0", "1", "2", "i", "1+2i"};
template<class T> int nscal() { return is_cx<T>{} ? 5 : 3; }
template<class T> T   scal_of(int i) { switch(i) { case 0: return mk<T>(0, 0); case 1: return mk<T>(1, 0); case 2: return mk<T>(2, 0); case 3: return mk<T>(0, 1); default: return mk<T>(1, 2); } }
static std::string sc_class(int i) { return i == 0 ? "=0" : "!=0"; }
static char const* szc(long n) { return n == 0 ? "0" : (n == 1 ? "1" : "2+"); }

// ------------------------------------------------------------------------------------------------ outcome of one configuration
struct Res {
	int         code = 0;  // 0 correct, 1 rejected by exception, 2 rejected by library assertion, 3 violation
	std::string symptom, detail;
	bool        escaped = false;  // damage reached the outermost guard row of a store: the process may be corrupted, the child exits after reporting
	void flag(std::string const& s, std::string const& d) {
		code = 3;
		if(symptom.find(s) == std::string::npos) { symptom += (symptom.empty() ? "" : "+") + s; }
		if(detail.size() < 600) { detail += (detail.empty() ? "" : "; ") + d; }
	}
};
struct Desc {
	std::string id, keyprefix;                                  // replay string; key without the symptom
	std::vector<std::pair<std::string, std::string>> fields;  // human-readable
};

// ------------------------------------------------------------------------------------------------ batching supervisor
struct Shm {
	long pos;
	long n_correct, n_rej_exc, n_rej_assert, n_viol;
	int  finished;
};
struct Driver {
	enum { PARENT, CHILD, REPLAY } mode = PARENT;
	long nshards = 1, shard = 0, batch = 256;
	long gidx = 0;                     // index in the complete grid
	long grid_total = 0, mine = 0, nontrivial = 0, deaths = 0;
	long skip_remaining = 0;           // parent: configurations of the current batch already executed by children
	long cpos = 0, cstart = 0;         // child: position inside the batch, first position to execute
	int  vfd = -1;                     // child: pipe for violation records
	bool stopped = false;
	std::string replay;
	bool replay_found = false; long repeat = 1, replay_tag = -1, next_sample = 3000;
	Res  replay_res; Desc replay_desc;
	Shm* sh = nullptr;
	std::string section_filter;       // replay: "<form>/<type>/" prefix of the wanted configuration

	void init() {
		sh = static_cast<Shm*>(mmap(nullptr, sizeof(Shm), PROT_READ | PROT_WRITE, MAP_SHARED | MAP_ANONYMOUS, -1, 0));
		std::memset(sh, 0, sizeof(Shm));
		mc::cur_init();
	}
	static std::string record(Desc const& d, Res const& r) {
		mc::J j;
		j.s("harness", "blasmc").s("replay", d.id);
		for(auto const& f : d.fields) { j.s(f.first, f.second); }
		j.s("symptom", r.symptom).s("detail", r.detail);
		return j.str();
	}
	// true if a section (operation form, element type) has to be enumerated at all
	bool want(std::string const& form, char const* tc) const { return mode != REPLAY || replay.rfind(form + "/" + tc + "/", 0) == 0; }

	// tag: the sizes of the configuration packed into a number (lets a replay skip most configurations without building their description)
	template<class DescF, class ExecF> void step(long tag, bool nontriv, DescF&& descf, ExecF&& exec) {
		long const g = gidx++;
		if(mode == REPLAY) {
			if(replay_found || tag != replay_tag) { return; }
			Desc d = descf();
			if(d.id != replay) { return; }
			replay_found = true; replay_desc = d;
			mc::cur_set(d.keyprefix, d.id);
			replay_res = exec();
			for(long i = 1; i < repeat; ++i) { Res again = exec(); if(again.code != replay_res.code || again.symptom != replay_res.symptom || again.detail != replay_res.detail) { replay_res.flag("nondeterministic", "a repeated execution gave a different outcome: " + again.symptom + " " + again.detail); } }
			return;
		}
		if(g % nshards != shard) { return; }
		if(mode == PARENT) {
			if(nontriv && g >= next_sample && mc::R.samples.size() < 4) {
				Desc d = descf(); mc::J j; j.s("replay", d.id); for(auto const& f : d.fields) { j.s(f.first, f.second); }
				mc::R.sample(j.str(), 4); next_sample = g + 150000;
			}
			if(skip_remaining > 0) { --skip_remaining; ++mine; nontrivial += nontriv ? 1 : 0; return; }
			if(stopped) { return; }
			if(mc::past_deadline()) { stopped = true; mc::R.exhaustive = false; return; }
			long done = 0;
			while(done < batch) {
				int err = memfd_create("blasmc_err", 0);
				int pfd[2]; if(pipe(pfd) != 0) { std::perror("pipe"); std::exit(3); }
				sh->pos = -1; sh->finished = 0;
				std::fflush(stdout); std::fflush(stderr);
				pid_t pid = fork();
				if(pid == 0) { dup2(err, 2); close(err); close(pfd[0]); vfd = pfd[1]; mode = CHILD; cpos = 0; cstart = done; break; }
				close(pfd[1]);
				std::string vio; { char buf[65536]; for(;;) { auto n = read(pfd[0], buf, sizeof buf); if(n <= 0) { break; } vio.append(buf, static_cast<std::size_t>(n)); } }
				close(pfd[0]);
				int st = 0; waitpid(pid, &st, 0);
				for(std::size_t b = 0; b < vio.size();) {  // lines  key TAB json
					auto e = vio.find('\n', b); if(e == std::string::npos) { break; }
					auto t = vio.find('\t', b);
					if(t != std::string::npos && t < e) { mc::R.violation(vio.substr(b, t - b), vio.substr(t + 1, e - t - 1)); }
					b = e + 1;
				}
				if(WIFEXITED(st) && WEXITSTATUS(st) == 0 && sh->finished != 0) { done = batch; }
				else if(WIFEXITED(st) && WEXITSTATUS(st) == 0 && sh->pos >= done) { done = sh->pos + 1; }   // the child left deliberately after configuration sh->pos
				else {
					std::string se = mc::read_fd_all(err);
					std::string cause = WIFSIGNALED(st) ? ("signal " + std::to_string(WTERMSIG(st))) : ("exit " + std::to_string(WEXITSTATUS(st)));
					std::string cls = mc::crash_class(se);
					if(cls == "signal" && WIFSIGNALED(st)) { cls = "signal-" + std::to_string(WTERMSIG(st)); }
					std::string kp = mc::g_cur->key, id = mc::g_cur->trace;
					if(sh->pos < done) { kp = "harness"; id = "(died before executing a configuration)"; }
					++deaths; ++sh->n_viol;
					mc::R.violation(kp + "|crash:" + cls, mc::J().s("harness", "blasmc").s("replay", id).s("kind", "crash").s("cause", cause).s("class", cls).s("stderr", mc::crash_digest(se)).str());
					done = std::max(done + 1, sh->pos + 1);
				}
				close(err);
			}
			if(mode == PARENT) { skip_remaining = batch - 1; ++mine; nontrivial += nontriv ? 1 : 0; return; }
		}
		// CHILD
		long const p = cpos++;
		if(p < cstart) { return; }
		Desc d = descf();
		mc::cur_set(d.keyprefix, d.id);
		sh->pos = p;
		Res r = exec();
		switch(r.code) {
			case 0: ++sh->n_correct; break;
			case 1: ++sh->n_rej_exc; break;
			case 2: ++sh->n_rej_assert; break;
			default: {
				++sh->n_viol;
				if(r.detail.size() > 900) { r.detail.resize(900); }
				std::string line = d.keyprefix + "|" + r.symptom + "\t" + record(d, r) + "\n";
				for(std::size_t o = 0; o < line.size();) { auto n = write(vfd, line.data() + o, line.size() - o); if(n <= 0) { break; } o += static_cast<std::size_t>(n); }
				if(r.escaped) { std::fflush(stderr); _exit(0); }
			}
		}
		if(p == batch - 1) { sh->finished = 1; std::fflush(stderr); _exit(0); }
	}
	// called after the last section
	void finish_child() { if(mode == CHILD) { sh->finished = 1; std::fflush(stderr); _exit(0); } }
};
static Driver D;

// ------------------------------------------------------------------------------------------------ operands
enum { BN, BT, BP, BPT, NBASE };
static char const* const bname[] = {"N", "T", "P", "PT"};
enum { WI, WJ, WH, NWRAP };
struct ML { int base, wrap; };
// spelling used in the replay string
static std::string lname(ML l) { return l.wrap == WI ? std::string(bname[l.base]) : std::string(l.wrap == WJ ? "J." : "H.") + bname[l.base]; }
// layout class used in violation keys: H of a layout presents the adaptor with exactly the strides and pointer type of J of the transposed layout
static std::string cname(ML l) { static int const tr[] = {BT, BN, BPT, BP}; return l.wrap == WH ? std::string("J.") + bname[tr[l.base]] : lname(l); }
template<class T> std::vector<ML> mlayouts(bool conj_ok) {
	std::vector<ML> r;
	for(int w = 0; w < ((is_cx<T>{} && conj_ok) ? NWRAP : 1); ++w) { for(int b = 0; b < NBASE; ++b) { r.push_back(ML{b, w}); } }
	return r;
}
static bool tripwire(long p, long W, long H) { return p < W || p >= (H - 1) * W; }

// a logical R x C matrix operand in its own store.  Layout variants of the (unwrapped) r x c view (all have the same C++ type):
//  N  rows 2..2+r of a (r+4) x c store                      (contiguous block; two guard rows above and below)
//  P  rows 2..2+r, columns 2..2+c of a (r+4) x (c+3) store   (padded sub-block)
//  T  N-variant of the c x r storage, .transposed();   PT  P-variant of the c x r storage, .transposed()
// wrapper: I identity, J = blas::J(view) (conjugated), H = blas::H(view of the C x R operand) (conjugate-transposed)
template<class T> struct Mat {
	long R, C; ML l; long r, c, W, H;
	multi::array<T, 2> st;
	std::vector<T>    raw0, before;
	std::vector<char> mask;
	char const* name;
	static long width(int b, long r, long c) { switch(b) { case BN: return std::max(c, 1L); case BP: return c + 3; case BT: return std::max(r, 1L); default: return r + 3; } }
	static long height(int b, long r, long c) { return (b == BN || b == BP ? r : c) + 4; }
	Mat(char const* nm, ML l_, long R_, long C_, long padv) : R(R_), C(C_), l(l_), r(l_.wrap == WH ? C_ : R_), c(l_.wrap == WH ? R_ : C_), W(width(l_.base, r, c)), H(height(l_.base, r, c)),
		st(multi::extensions_t<2>{H, W}, mk<T>(padv, padv + 12)), name(nm) {
		mask.assign(static_cast<std::size_t>(W * H), 0);
		for(long i = 0; i < r; ++i) { for(long j = 0; j < c; ++j) { mask[static_cast<std::size_t>(off(i, j))] = 1; } }
	}
	// raw offset of element (i, j) of the unwrapped view: the harness's own arithmetic, independent of the library's layout code
	long off(long i, long j) const { switch(l.base) { case BN: return (2 + i) * W + j; case BP: return (2 + i) * W + 2 + j; case BT: return (2 + j) * W + i; default: return (2 + j) * W + 2 + i; } }
	template<class F> void base_view(F&& f) {
		switch(l.base) {
			case BN: { auto&& v = st({2, 2 + r}, {0, c}); f(v); break; }
			case BP: { auto&& v = st({2, 2 + r}, {2, 2 + c}); f(v); break; }
			case BT: { auto&& v = st({2, 2 + c}, {0, r}).transposed(); f(v); break; }
			default: { auto&& v = st({2, 2 + c}, {2, 2 + r}).transposed(); f(v); break; }
		}
	}
	// f(view of logical extents R x C)
	template<bool Conj, class F> void view(F&& f) {
		base_view([&](auto& v) {
			if constexpr(is_cx<T>{} && Conj) {
				if(l.wrap == WJ) { auto&& w = blas::J(v); f(w); return; }
				if(l.wrap == WH) { auto&& w = blas::H(v); f(w); return; }
			}
			f(v);
		});
	}
	// writes the logical contents into the store, then reads them back through plain indexing (these read-back values are what the reference uses)
	template<class V, class G> void fill(V& v, G gen, Res& res) {
		T* d = st.data_elements();
		for(long i = 0; i < R; ++i) { for(long j = 0; j < C; ++j) { T x = gen(i, j); d[off(l.wrap == WH ? j : i, l.wrap == WH ? i : j)] = (l.wrap == WI ? x : cj(x)); } }
		raw0.assign(d, d + W * H);
		before = read(v);
		for(long i = 0; i < R; ++i) { for(long j = 0; j < C; ++j) { if(!(at(i, j) == gen(i, j))) { res.flag("view-mismatch", std::string(name) + "[" + std::to_string(i) + "][" + std::to_string(j) + "] reads " + vstr(at(i, j)) + " after " + vstr(gen(i, j)) + " was stored (harness or view defect)"); return; } } }
	}
	template<class V> std::vector<T> read(V& v) const {  // (indexing a const conjugated view does not compile on this tree)
		std::vector<T> o(static_cast<std::size_t>(R * C));
		for(long i = 0; i < R; ++i) { for(long j = 0; j < C; ++j) { o[static_cast<std::size_t>(i * C + j)] = static_cast<T>(v[i][j]); } }
		return o;
	}
	T at(long i, long j) const { return before[static_cast<std::size_t>(i * C + j)]; }
	void guards(Res& res) const {
		T const* d = st.data_elements();
		for(std::size_t p = 0; p < raw0.size(); ++p) {
			if(mask[p] == 0 && !(d[p] == raw0[p])) {
				res.flag("guard-damage", std::string("store of ") + name + " (" + std::to_string(H) + "x" + std::to_string(W) + "): element outside the view at offset " + std::to_string(p) + " was " + vstr(raw0[p]) + " now " + vstr(d[p]));
				for(std::size_t q = 0; q < raw0.size(); ++q) { if(mask[q] == 0 && !(d[q] == raw0[q]) && tripwire(static_cast<long>(q), W, H)) { res.escaped = true; } }
				break;
			}
		}
	}
	// output operand: logical contents (through plain indexing) == expect; nothing outside the view changed
	template<class V> void check_out(V& v, std::vector<T> const& expect, Res& res) const {
		std::vector<T> got = read(v);
		for(std::size_t p = 0; p < got.size(); ++p) {
			if(!(got[p] == expect[p])) {
				res.flag(got == before && !(expect == before) ? "output-untouched" : "wrong-result", std::string(name) + "[" + std::to_string(static_cast<long>(p) / C) + "][" + std::to_string(static_cast<long>(p) % C) + "] expected " + vstr(expect[p]) + " got " + vstr(got[p]) + " (was " + vstr(before[p]) + ")");
				break;
			}
		}
		guards(res);
	}
	// input operand: the whole store is bit-for-bit what it was
	void check_in(Res& res) const {
		T const* d = st.data_elements();
		for(std::size_t p = 0; p < raw0.size(); ++p) { if(mask[p] != 0 && !(d[p] == raw0[p])) { res.flag("input-modified", std::string("input ") + name + ": element at store offset " + std::to_string(p) + " was " + vstr(raw0[p]) + " now " + vstr(d[p])); break; } }
		guards(res);
	}
};

enum { VU, VS, VC, NVK };
static char const* const vname[] = {"unit", "stride2", "column"};
struct VL { int kind, wrap; };  // wrap: WI or WJ (= blas::C(v))
static std::string lname(VL l) { return l.wrap == WI ? std::string(vname[l.kind]) : std::string("C.") + vname[l.kind]; }
template<class T> std::vector<VL> vlayouts(bool conj_ok) {
	std::vector<VL> r;
	for(int w = 0; w < ((is_cx<T>{} && conj_ok) ? 2 : 1); ++w) { for(int k = 0; k < NVK; ++k) { r.push_back(VL{k, w}); } }
	return r;
}
// a logical vector of n elements:  unit: elements 3..3+n of a 1-D store;  stride2: every second element (strided(2)) of a 1-D store;  column: column 1, rows 2..2+n of an (n+4) x 3 store
template<class T> struct Vec {
	long n; VL l; long W, H;
	multi::array<T, 1> s1; multi::array<T, 2> s2;
	std::vector<T>    raw0, before;
	std::vector<char> mask;
	char const* name;
	Vec(char const* nm, VL l_, long n_, long padv) : n(n_), l(l_), W(l_.kind == VC ? 3 : 1), H(l_.kind == VU ? n_ + 6 : (l_.kind == VS ? 2 * n_ + 6 : n_ + 4)),
		s1(multi::extensions_t<1>{multi::iextension{l_.kind == VC ? 0 : H}}, mk<T>(padv, padv + 12)),
		s2(l_.kind == VC ? multi::extensions_t<2>{H, 3} : multi::extensions_t<2>{0, 0}, mk<T>(padv, padv + 12)), name(nm) {
		mask.assign(static_cast<std::size_t>(W * H), 0);
		for(long i = 0; i < n; ++i) { mask[static_cast<std::size_t>(off(i))] = 1; }
	}
	long off(long i) const { return l.kind == VU ? 3 + i : (l.kind == VS ? 3 + 2 * i : (2 + i) * 3 + 1); }
	T*       raw() { return l.kind == VC ? s2.data_elements() : s1.data_elements(); }
	T const* raw() const { return l.kind == VC ? s2.data_elements() : s1.data_elements(); }
	template<class F> void base_view(F&& f) {
		switch(l.kind) {
			case VU: { auto&& v = s1({3, 3 + n}); f(v); break; }
			case VS: { auto&& v = s1({3, 3 + 2 * n}).strided(2); f(v); break; }
			default: { auto&& v = (~s2)[1]({2, 2 + n}); f(v); break; }
		}
	}
	template<bool Conj, class F> void view(F&& f) {
		base_view([&](auto& v) {
			if constexpr(is_cx<T>{} && Conj) { if(l.wrap == WJ) { auto&& w = blas::C(v); f(w); return; } }
			f(v);
		});
	}
	template<class V, class G> void fill(V& v, G gen, Res& res) {
		T* d = raw();
		for(long i = 0; i < n; ++i) { T x = gen(i); d[off(i)] = (l.wrap == WI ? x : cj(x)); }
		raw0.assign(d, d + W * H);
		before = read(v);
		for(long i = 0; i < n; ++i) { if(!(at(i) == gen(i))) { res.flag("view-mismatch", std::string(name) + "[" + std::to_string(i) + "] reads " + vstr(at(i)) + " after " + vstr(gen(i)) + " was stored (harness or view defect)"); return; } }
	}
	template<class V> std::vector<T> read(V& v) const {
		std::vector<T> o(static_cast<std::size_t>(n));
		for(long i = 0; i < n; ++i) { o[static_cast<std::size_t>(i)] = static_cast<T>(v[i]); }
		return o;
	}
	T at(long i) const { return before[static_cast<std::size_t>(i)]; }
	void guards(Res& res) const {
		T const* d = raw();
		for(std::size_t p = 0; p < raw0.size(); ++p) {
			if(mask[p] == 0 && !(d[p] == raw0[p])) {
				res.flag("guard-damage", std::string("store of ") + name + ": element outside the view at offset " + std::to_string(p) + " of " + std::to_string(raw0.size()) + " was " + vstr(raw0[p]) + " now " + vstr(d[p]));
				for(std::size_t q = 0; q < raw0.size(); ++q) { if(mask[q] == 0 && !(d[q] == raw0[q]) && tripwire(static_cast<long>(q), W, H)) { res.escaped = true; } }
				break;
			}
		}
	}
	template<class V> void check_out(V& v, std::vector<T> const& expect, Res& res) const {
		std::vector<T> got = read(v);
		for(std::size_t p = 0; p < got.size(); ++p) {
			if(!(got[p] == expect[p])) {
				res.flag(got == before && !(expect == before) ? "output-untouched" : "wrong-result", std::string(name) + "[" + std::to_string(p) + "] expected " + vstr(expect[p]) + " got " + vstr(got[p]) + " (was " + vstr(before[p]) + ")");
				break;
			}
		}
		guards(res);
	}
	void check_in(Res& res) const {
		T const* d = raw();
		for(std::size_t p = 0; p < raw0.size(); ++p) { if(mask[p] != 0 && !(d[p] == raw0[p])) { res.flag("input-modified", std::string("input ") + name + ": element at store offset " + std::to_string(p) + " was " + vstr(raw0[p]) + " now " + vstr(d[p])); break; } }
		guards(res);
	}
};

// data patterns: small positive integers, nowhere zero, not symmetric under i <-> j, imaginary parts different from the real parts
template<class T> T genA(long i, long j) { return mk<T>(1 + i + 2 * j, 1 + 2 * i + j + ((i + j) % 2)); }
template<class T> T genB(long i, long j) { return mk<T>(2 + 3 * i + j, 3 + i + 2 * j); }
template<class T> T genC(long i, long j) { return mk<T>(5 + 2 * i + 3 * j, 4 + 3 * i + j); }
template<class T> T genX(long i) { return mk<T>(2 + i, 1 + 2 * i); }
template<class T> T genY(long i) { return mk<T>(3 + 2 * i, 5 + i); }
static constexpr long PAD_A = 4099, PAD_B = 8209, PAD_C = 16411;

// translate the result of guarded() into a Res; returns true when the call ran to completion (then the checks follow)
static bool ran(int g, Res& res) {
	if(g == 1) { res.code = 1; return false; }
	if(g == 2) { res.code = 2; return false; }
	if(g == 3) { res.flag("foreign-assertion", g_assert); return false; }
	if(g_xerbla != 0) { res.flag("blas-illegal-argument", std::string("the library passed an illegal argument to BLAS: xerbla(") + g_xerbla_name + ", parameter " + std::to_string(g_xerbla) + ")"); }
	return true;
}

static long g_sizes_max = 2;       // matrix dimensions 0..g_sizes_max
static long g_vec_max   = 4;       // vector lengths 0..g_vec_max
static bool g_thorough  = false;
struct SectionCount { std::string name; long n; };
static std::vector<SectionCount> g_sections;

// ================================================================================================ GEMM
// C (m x n) <- alpha A (m x k) B (k x n) + beta C
template<class T> std::vector<T> ref_gemm(T alpha, Mat<T> const& A, Mat<T> const& B, T beta, Mat<T> const& C) {
	long m = A.R, k = A.C, n = B.C;
	std::vector<T> o(static_cast<std::size_t>(m * n));
	for(long i = 0; i < m; ++i) { for(long j = 0; j < n; ++j) {
		T s = mk<T>(0, 0);
		for(long p = 0; p < k; ++p) { s += A.at(i, p) * B.at(p, j); }
		o[static_cast<std::size_t>(i * n + j)] = alpha * s + beta * C.at(i, j);
	} }
	return o;
}

// Call(alpha, A, B, beta, C) performs the library call.  ConjC: output wrappers are part of the grid.  has_beta: beta is enumerated (otherwise beta_fixed is what the form means).
template<class T, bool ConjC, class Call>
void grid_gemm(std::string const& form, bool has_beta, int beta_fixed, Call call) {
	if(!D.want(form, tcode<T>())) { return; }
	long const g0 = D.gidx;
	auto LA = mlayouts<T>(true), LB = mlayouts<T>(true), LC = mlayouts<T>(ConjC);
	int const ns = nscal<T>();
	for(long m = 0; m <= g_sizes_max; ++m) { for(long k = 0; k <= g_sizes_max; ++k) { for(long n = 0; n <= g_sizes_max; ++n) {
	for(ML la : LA) { for(ML lb : LB) { for(ML lc : LC) {
	for(int ia = 0; ia < ns; ++ia) { for(int ib = 0; ib < (has_beta ? ns : 1); ++ib) {
		int const ibeta = has_beta ? ib : beta_fixed;
		D.step(m * 100 + k * 10 + n, m >= 1 && k >= 1 && n >= 1,
			[&] {
				Desc d;
				d.id = form + "/" + tcode<T>() + "/A=" + lname(la) + ",B=" + lname(lb) + ",C=" + lname(lc) + "/m" + std::to_string(m) + "k" + std::to_string(k) + "n" + std::to_string(n) + "/a=" + sc_name[ia] + (has_beta ? std::string(",b=") + sc_name[ibeta] : std::string());
				d.keyprefix = form + "|" + tname<T>() + "|A=" + cname(la) + ",B=" + cname(lb) + ",C=" + cname(lc) + "|m=" + szc(m) + ",k=" + szc(k) + ",n=" + szc(n) + "|" + (has_beta ? "beta" + sc_class(ibeta) : "alpha" + sc_class(ia));
				d.fields = {{"operation", form + ": C(m x n) <- alpha A(m x k) B(k x n) + beta C"}, {"element_type", tname<T>()}, {"layouts", "A=" + lname(la) + " B=" + lname(lb) + " C=" + lname(lc)},
					{"sizes", "m=" + std::to_string(m) + " k=" + std::to_string(k) + " n=" + std::to_string(n)}, {"scalars", std::string("alpha=") + sc_name[ia] + " beta=" + sc_name[ibeta] + (has_beta ? "" : " (implied by the form)")}};
				return d;
			},
			[&] {
				Res res;
				T const alpha = scal_of<T>(ia), beta = scal_of<T>(ibeta);
				Mat<T> A("A", la, m, k, PAD_A), B("B", lb, k, n, PAD_B), C("C", lc, m, n, PAD_C);
				A.template view<true>([&](auto& a) { B.template view<true>([&](auto& b) { C.template view<ConjC>([&](auto& c) {
					A.fill(a, genA<T>, res); B.fill(b, genB<T>, res); C.fill(c, genC<T>, res);
					if(res.code != 0) { return; }
					auto expect = ref_gemm(alpha, A, B, beta, C);
					if(!ran(guarded([&] { call(alpha, a, b, beta, c); }), res)) { return; }
					C.check_out(c, expect, res); A.check_in(res); B.check_in(res);
				}); }); });
				return res;
			});
	} } } } } } } }
	g_sections.push_back({form + "<" + tname<T>() + ">: sizes (0.." + std::to_string(g_sizes_max) + ")^3 x layouts A " + std::to_string(LA.size()) + " x B " + std::to_string(LB.size()) + " x C " + std::to_string(LC.size()) + " x alpha " + std::to_string(ns) + (has_beta ? " x beta " + std::to_string(ns) : std::string()), D.gidx - g0});
}

// gemm on complex<float> is not instantiable on this tree: core.hpp:530 compares `*beta != 0.0` (complex<float> vs double)
template<class T> constexpr bool gemm_instantiable = !std::is_same_v<T, std::complex<float>>;
template<class T> void section_gemm() {
	if constexpr(gemm_instantiable<T>)
	grid_gemm<T, true>("gemm.inplace", true, 0, [](T alpha, auto& a, auto& b, T beta, auto& c) { blas::gemm(alpha, a, b, beta, c); });
}

// ================================================================================================ main
template<class T> void all_sections() {
	section_gemm<T>();
}

int main(int argc, char** argv) {
	mc::Args args(argc, argv);
	g_thorough = args.get("tier", "quick") == "thorough";
	g_sizes_max = args.geti("maxsize", g_thorough ? 3 : 2);
	g_vec_max   = args.geti("maxvec", 4);
	mc::set_deadline(static_cast<double>(args.geti("deadline", 3000)));
	D.init();
	D.nshards = std::max(1L, args.geti("nshards", 1)); D.shard = args.geti("shard", 0) % D.nshards; D.batch = std::max(1L, args.geti("batch", 256));
	std::string rp = args.get("replay", args.get("replay-trace", ""));
	if(!rp.empty()) { D.mode = Driver::REPLAY; D.replay = rp; D.repeat = args.geti("repeat", 1); g_sizes_max = 3;
		// tag = the digits of the 4th '/'-separated component (the sizes)
		std::vector<std::string> parts; { std::istringstream is(rp); std::string t; while(std::getline(is, t, '/')) { parts.push_back(t); } }
		long tag = 0; if(parts.size() >= 4) { for(char ch : parts[3]) { if(ch >= '0' && ch <= '9') { tag = tag * 10 + (ch - '0'); } } }
		D.replay_tag = tag;
	}

	all_sections<double>(); all_sections<std::complex<double>>();
	if(g_thorough || D.mode == Driver::REPLAY) { all_sections<float>(); all_sections<std::complex<float>>(); }
	D.finish_child();

	if(D.mode == Driver::REPLAY) {
		if(!D.replay_found) { std::printf("REPLAY: no configuration with this id in the grid\n"); return 2; }
		Res const& r = D.replay_res;
		if(r.code == 3) { std::printf("REPLAY VIOLATION %s|%s %s\n", D.replay_desc.keyprefix.c_str(), r.symptom.c_str(), Driver::record(D.replay_desc, r).c_str()); return 1; }
		std::printf("REPLAY OK (%s)\n", r.code == 0 ? "correct" : (r.code == 1 ? ("rejected by exception: " + g_exc.substr(0, 300)).c_str() : (std::string("rejected by assertion: ") + g_assert).c_str()));
		return 0;
	}
	mc::R.add("evaluations", D.mine); mc::R.add("distinct_nontrivial", D.nontrivial);
	mc::R.add("correct", D.sh->n_correct); mc::R.add("rejected", D.sh->n_rej_exc + D.sh->n_rej_assert);
	mc::R.add("rejected_by_exception", D.sh->n_rej_exc); mc::R.add("rejected_by_assertion", D.sh->n_rej_assert);
	mc::R.add("violating_configurations", D.sh->n_viol); mc::R.add("child_deaths", D.deaths);
	if(D.shard == 0) {
		mc::R.add("grid_configurations", D.gidx);
		for(auto const& s : g_sections) { mc::R.note(s.name + " = " + std::to_string(s.n) + " configurations"); }
	}
	mc::R.emit(stdout);
	return 0;
}
