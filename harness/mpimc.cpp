// C18 — MPI messages built from a view denote exactly its elements in canonical order.
// E1 client.  For every view state of guard-buffer roots (array_ref<T,D>, D = 1..4, T = int, double):
//   message(elements)/pack    mpi::message(v.elements()) -> MPI_Pack -> bytes == the model's canonical element sequence (count, order, nothing else)
//   message(elements)/unpack  a known contiguous sequence -> MPI_Unpack through mpi::message(v.elements()) -> WHOLE destination guard buffer == "k-th canonical element <- k-th value"
//   skeleton(layout)/pack     mpi::skeleton<T>(v.layout()) with v.base()     (the other documented way of the adaptor's test)
//   message(base,skeleton&&)  mpi::message<>(v.base(), mpi::skeleton<>(v.layout(), dt))   (the skeleton is moved into the message)
//   skeleton.datatype() &&    the datatype released from an rvalue skeleton is used after the skeleton died and freed by the caller
//   create_subarray/pack      mpi::create_subarray(v.layout(), dt, &t); commit; count 1; free
//   data(begin)/pack          mpi::data(v.begin()), count 1 -> the element designated by the iterator (1-D non-empty states)
//   pair                      pack from the source state's message, unpack through the message of a state of a SECOND root (any shape, equal num_elements)
// Datatype ledger through the PMPI profiling interface: a datatype given to MPI_Pack/MPI_Unpack is predefined or live and committed; every created
// datatype is freed exactly once by the time the message/skeleton is destroyed; nothing is freed twice, no predefined/null datatype is freed.
// Every configuration runs in a forked child (batches that resume after a death); outcomes: correct | rejected (exception / library assertion) | violation.
#define OMPI_SKIP_MPICXX 1
#include <mpi.h>

#include <memory>

#include "../engine/view_model.hpp"
#include "../engine/view_oracle.hpp"

#include <boost/multi/adaptors/mpi.hpp>

using namespace vm;

// ===================================================================== datatype ledger (PMPI) =====================================================================
namespace ledger {
struct Entry { bool committed; char const* how; };
struct Ev { std::string tag, text; };
struct L {
	bool active = false;
	std::map<MPI_Datatype, Entry> live;   // derived datatypes created and not yet freed
	std::set<MPI_Datatype> dead;          // handles that were freed (and whose address was not handed out again)
	std::vector<Ev> events;               // violations of the ledger rules, in order of occurrence
	long created = 0, freed = 0, commits = 0, packs = 0, unpacks = 0;
};
inline L& l() { static L x; return x; }

inline void event(std::string const& tag, std::string const& text) { if(l().events.size() < 8) { l().events.push_back(Ev{tag, text}); } }
inline std::string errstr(int rc) { char b[MPI_MAX_ERROR_STRING + 1]; int n = 0; if(PMPI_Error_string(rc, b, &n) != MPI_SUCCESS) { return "error " + std::to_string(rc); } return std::string(b, static_cast<std::size_t>(n)); }
inline int checked(char const* fn, int rc) { if(rc != MPI_SUCCESS && l().active) { event(std::string("mpi-error:") + fn, std::string(fn) + " returned: " + errstr(rc)); } return rc; }

enum St { NUL, LIVE, DEAD, PRE, UNKNOWN };
inline bool named(MPI_Datatype d) {
	static MPI_Datatype const known[] = {MPI_CHAR, MPI_SIGNED_CHAR, MPI_UNSIGNED_CHAR, MPI_BYTE, MPI_SHORT, MPI_UNSIGNED_SHORT, MPI_INT, MPI_UNSIGNED, MPI_LONG, MPI_UNSIGNED_LONG,
		MPI_LONG_LONG, MPI_UNSIGNED_LONG_LONG, MPI_FLOAT, MPI_DOUBLE, MPI_LONG_DOUBLE, MPI_WCHAR, MPI_C_BOOL, MPI_C_FLOAT_COMPLEX, MPI_C_DOUBLE_COMPLEX, MPI_PACKED, MPI_AINT, MPI_OFFSET,
		MPI_INT8_T, MPI_INT16_T, MPI_INT32_T, MPI_INT64_T, MPI_UINT8_T, MPI_UINT16_T, MPI_UINT32_T, MPI_UINT64_T};
	for(auto k : known) { if(d == k) { return true; } }
	return false;
}
inline St state(MPI_Datatype d) {
	if(d == MPI_DATATYPE_NULL) { return NUL; }
	if(l().live.count(d)) { return LIVE; }
	if(l().dead.count(d)) { return DEAD; }
	if(named(d)) { return PRE; }
	int ni = 0, na = 0, nd = 0, comb = 0;   // a handle never seen: created through a constructor that is not interposed, or a predefined type not in the list
	if(PMPI_Type_get_envelope(d, &ni, &na, &nd, &comb) == MPI_SUCCESS && comb == MPI_COMBINER_NAMED) { return PRE; }
	return UNKNOWN;
}
inline char const* st_name(St s) { static char const* const n[] = {"MPI_DATATYPE_NULL", "live", "already freed", "predefined", "unknown"}; return n[s]; }

// common part of every interposed constructor; returns true when the call may be forwarded
inline bool ctor_pre(char const* fn, MPI_Datatype old, MPI_Datatype* nt) {
	if(!l().active) { return true; }
	St s = state(old);
	if(s == DEAD || s == NUL) { event("constructed-from-" + std::string(s == DEAD ? "freed" : "null"), std::string(fn) + " was given an old datatype that is " + st_name(s)); if(nt) { *nt = MPI_DATATYPE_NULL; } return false; }
	return true;
}
inline int ctor_post(char const* fn, int rc, MPI_Datatype* nt, bool committed) {
	if(!l().active) { return rc; }
	checked(fn, rc);
	if(rc == MPI_SUCCESS && nt && *nt != MPI_DATATYPE_NULL && !named(*nt)) { l().dead.erase(*nt); l().live[*nt] = Entry{committed, fn}; ++l().created; }
	return rc;
}
inline bool committed_of(MPI_Datatype d) { St s = state(d); if(s == LIVE) { return l().live[d].committed; } return s == PRE || s == UNKNOWN; }

// usable by MPI_Pack / MPI_Unpack / MPI_Type_size ?
inline bool use_ok(char const* fn, MPI_Datatype d) {
	if(!l().active) { return true; }
	St s = state(d);
	if(s == PRE || s == UNKNOWN) { return true; }
	if(s == LIVE) { if(l().live[d].committed) { return true; } event("used-uncommitted", std::string(fn) + " was given a datatype (made by " + l().live[d].how + ") that was never committed"); return false; }
	event(s == DEAD ? "used-freed" : "used-null", std::string(fn) + " was given a datatype that is " + st_name(s));
	return false;
}
inline void begin() { l().live.clear(); l().dead.clear(); l().events.clear(); }
inline void end() {
	if(!l().live.empty()) {
		std::string how; for(auto const& [h, e] : l().live) { (void)h; how += (how.empty() ? "" : ", "); how += e.how; }
		event("leak", std::to_string(l().live.size()) + " created datatype(s) still not freed after the message/skeleton was destroyed (made by: " + how + ")");
		for(auto& [h, e] : l().live) { (void)e; MPI_Datatype t = h; PMPI_Type_free(&t); }
		l().live.clear();
	}
}
}  // namespace ledger

extern "C" {
int MPI_Type_create_hvector(int count, int blocklength, MPI_Aint stride, MPI_Datatype oldtype, MPI_Datatype* newtype) {
	if(!ledger::ctor_pre("MPI_Type_create_hvector", oldtype, newtype)) { return MPI_ERR_TYPE; }
	return ledger::ctor_post("MPI_Type_create_hvector", PMPI_Type_create_hvector(count, blocklength, stride, oldtype, newtype), newtype, false);
}
int MPI_Type_vector(int count, int blocklength, int stride, MPI_Datatype oldtype, MPI_Datatype* newtype) {
	if(!ledger::ctor_pre("MPI_Type_vector", oldtype, newtype)) { return MPI_ERR_TYPE; }
	return ledger::ctor_post("MPI_Type_vector", PMPI_Type_vector(count, blocklength, stride, oldtype, newtype), newtype, false);
}
int MPI_Type_create_resized(MPI_Datatype oldtype, MPI_Aint lb, MPI_Aint extent, MPI_Datatype* newtype) {
	if(!ledger::ctor_pre("MPI_Type_create_resized", oldtype, newtype)) { return MPI_ERR_TYPE; }
	return ledger::ctor_post("MPI_Type_create_resized", PMPI_Type_create_resized(oldtype, lb, extent, newtype), newtype, false);
}
int MPI_Type_dup(MPI_Datatype oldtype, MPI_Datatype* newtype) {
	if(!ledger::ctor_pre("MPI_Type_dup", oldtype, newtype)) { return MPI_ERR_TYPE; }
	bool c = ledger::l().active && ledger::committed_of(oldtype);   // a duplicate inherits the committed state (MPI-3.1 4.1.10)
	return ledger::ctor_post("MPI_Type_dup", PMPI_Type_dup(oldtype, newtype), newtype, c);
}
int MPI_Type_contiguous(int count, MPI_Datatype oldtype, MPI_Datatype* newtype) {
	if(!ledger::ctor_pre("MPI_Type_contiguous", oldtype, newtype)) { return MPI_ERR_TYPE; }
	return ledger::ctor_post("MPI_Type_contiguous", PMPI_Type_contiguous(count, oldtype, newtype), newtype, false);
}
// constructors the pinned adaptor does not use; interposed so that an edited adaptor that switches to them is still accounted for
int MPI_Type_create_subarray(int ndims, int const sizes[], int const subsizes[], int const starts[], int order, MPI_Datatype oldtype, MPI_Datatype* newtype) {
	if(!ledger::ctor_pre("MPI_Type_create_subarray", oldtype, newtype)) { return MPI_ERR_TYPE; }
	return ledger::ctor_post("MPI_Type_create_subarray", PMPI_Type_create_subarray(ndims, sizes, subsizes, starts, order, oldtype, newtype), newtype, false);
}
int MPI_Type_indexed(int count, int const bl[], int const disp[], MPI_Datatype oldtype, MPI_Datatype* newtype) {
	if(!ledger::ctor_pre("MPI_Type_indexed", oldtype, newtype)) { return MPI_ERR_TYPE; }
	return ledger::ctor_post("MPI_Type_indexed", PMPI_Type_indexed(count, bl, disp, oldtype, newtype), newtype, false);
}
int MPI_Type_create_hindexed(int count, int const bl[], MPI_Aint const disp[], MPI_Datatype oldtype, MPI_Datatype* newtype) {
	if(!ledger::ctor_pre("MPI_Type_create_hindexed", oldtype, newtype)) { return MPI_ERR_TYPE; }
	return ledger::ctor_post("MPI_Type_create_hindexed", PMPI_Type_create_hindexed(count, bl, disp, oldtype, newtype), newtype, false);
}
int MPI_Type_create_indexed_block(int count, int bl, int const disp[], MPI_Datatype oldtype, MPI_Datatype* newtype) {
	if(!ledger::ctor_pre("MPI_Type_create_indexed_block", oldtype, newtype)) { return MPI_ERR_TYPE; }
	return ledger::ctor_post("MPI_Type_create_indexed_block", PMPI_Type_create_indexed_block(count, bl, disp, oldtype, newtype), newtype, false);
}
int MPI_Type_create_hindexed_block(int count, int bl, MPI_Aint const disp[], MPI_Datatype oldtype, MPI_Datatype* newtype) {
	if(!ledger::ctor_pre("MPI_Type_create_hindexed_block", oldtype, newtype)) { return MPI_ERR_TYPE; }
	return ledger::ctor_post("MPI_Type_create_hindexed_block", PMPI_Type_create_hindexed_block(count, bl, disp, oldtype, newtype), newtype, false);
}
int MPI_Type_create_struct(int count, int const bl[], MPI_Aint const disp[], MPI_Datatype const types[], MPI_Datatype* newtype) {
	for(int i = 0; i < count; ++i) { if(!ledger::ctor_pre("MPI_Type_create_struct", types[i], newtype)) { return MPI_ERR_TYPE; } }
	return ledger::ctor_post("MPI_Type_create_struct", PMPI_Type_create_struct(count, bl, disp, types, newtype), newtype, false);
}
int MPI_Type_commit(MPI_Datatype* type) {
	auto& L = ledger::l();
	if(!L.active) { return PMPI_Type_commit(type); }
	ledger::St s = ledger::state(*type);
	if(s == ledger::DEAD || s == ledger::NUL) { ledger::event(s == ledger::DEAD ? "commit-of-freed" : "commit-of-null", std::string("MPI_Type_commit was given a datatype that is ") + ledger::st_name(s)); return MPI_ERR_TYPE; }
	int rc = ledger::checked("MPI_Type_commit", PMPI_Type_commit(type));
	if(rc == MPI_SUCCESS && s == ledger::LIVE) { L.live[*type].committed = true; ++L.commits; }
	return rc;
}
int MPI_Type_free(MPI_Datatype* type) {
	auto& L = ledger::l();
	if(!L.active) { return PMPI_Type_free(type); }
	ledger::St s = ledger::state(*type);
	switch(s) {
		case ledger::NUL: ledger::event("free-of-null", "MPI_Type_free was given MPI_DATATYPE_NULL (a handle that was already freed through the same variable, or never created)"); return MPI_ERR_TYPE;
		case ledger::DEAD: ledger::event("double-free", "MPI_Type_free was given a datatype that was already freed"); *type = MPI_DATATYPE_NULL; return MPI_ERR_TYPE;
		case ledger::PRE: ledger::event("free-of-predefined", "MPI_Type_free was given a predefined datatype"); return MPI_ERR_TYPE;
		case ledger::LIVE: { MPI_Datatype h = *type; L.live.erase(h); L.dead.insert(h); ++L.freed; return ledger::checked("MPI_Type_free", PMPI_Type_free(type)); }
		default: return ledger::checked("MPI_Type_free", PMPI_Type_free(type));
	}
}
int MPI_Pack(void const* inbuf, int incount, MPI_Datatype datatype, void* outbuf, int outsize, int* position, MPI_Comm comm) {
	if(!ledger::use_ok("MPI_Pack", datatype)) { return MPI_ERR_TYPE; }
	++ledger::l().packs;
	return ledger::checked("MPI_Pack", PMPI_Pack(inbuf, incount, datatype, outbuf, outsize, position, comm));
}
int MPI_Unpack(void const* inbuf, int insize, int* position, void* outbuf, int outcount, MPI_Datatype datatype, MPI_Comm comm) {
	if(!ledger::use_ok("MPI_Unpack", datatype)) { return MPI_ERR_TYPE; }
	++ledger::l().unpacks;
	return ledger::checked("MPI_Unpack", PMPI_Unpack(inbuf, insize, position, outbuf, outcount, datatype, comm));
}
}  // extern "C"

// ===================================================================== configurations =====================================================================
enum Form { F_MSG_PACK, F_MSG_UNPACK, F_SKEL_PACK, F_MSGSK_PACK, F_SKELREL_PACK, F_SUBARRAY_PACK, F_DATA_PACK, F_PAIR, NFORMS };
static char const* const form_name[] = {"message(elements)/pack", "message(elements)/unpack", "skeleton(layout)/pack", "message(base,skeleton&&)/pack", "skeleton(layout).datatype()&&/pack", "create_subarray/pack", "data(begin)/pack", "message(elements)/pack>message(elements)/unpack"};
static char const* const form_tag[] = {"msg-pack", "msg-unpack", "skel-pack", "msgsk-pack", "skelrel-pack", "subarray-pack", "data-pack", "pair"};

template<class T> char const* tname();
template<> char const* tname<int>() { return "int"; }
template<> char const* tname<double>() { return "double"; }
template<class T> T val(int salt, idx i);   // small exactly representable values, distinct per (salt, i)
template<> int val<int>(int salt, idx i) { return static_cast<int>(1000*salt + i); }
template<> double val<double>(int salt, idx i) { return 1000.0*salt + 0.5*static_cast<double>(i); }
template<class T> std::string vstr(T const& x) { std::ostringstream o; o << x; return o.str(); }

static std::string sizes_str(std::vector<idx> const& s) { std::string p; for(std::size_t i = 0; i < s.size(); ++i) { p += (i ? "x" : ""); p += std::to_string(s[i]); } return p; }

struct State {
	Hist h; MView m;
	std::vector<idx> offs;   // offsets (into the root's element buffer) of the view's elements in canonical order, from the MODEL
	std::string lclass, sclass; bool nontrivial = false;
};
static void finish_state(State& s) {
	s.offs.clear(); for_each_index(s.m, [&](std::vector<idx> const&, idx off) { s.offs.push_back(off); });
	std::size_t n = s.offs.size();
	bool contig = true, mono = true;
	for(std::size_t k = 1; k < n; ++k) { if(s.offs[k] != s.offs[k - 1] + 1) { contig = false; } if(s.offs[k] <= s.offs[k - 1]) { mono = false; } }
	auto const& last = s.m.d.back();
	std::string c = n == 0 ? "empty" : n == 1 ? "single" : contig ? "contiguous" : !mono ? "permuted" : (last.size >= 2 && last.stride != 1) ? "gapped-strided-inner" : "gapped-unit-inner";
	s.lclass = "D" + std::to_string(s.m.rank()) + ":" + c;
	s.sclass.clear(); s.nontrivial = true;
	for(auto const& d : s.m.d) { s.sclass += (s.sclass.empty() ? "" : ","); s.sclass += d.size == 0 ? "0" : d.size == 1 ? "1" : "2+"; if(d.size < 1) { s.nontrivial = false; } }
	if(n == 0) { s.sclass = "some-0"; }   // which dimensions of an empty view are the empty ones is not kept in keys (one class per rank)
}

struct Symptom { std::string tag, detail; };
struct Outcome { char kind = 'C'; std::vector<Symptom> sy; };   // 'C' correct, 'R' rejected, 'V' violation, 'N' not applicable (not executed)

struct PackOut { bool reached = false; int rc = MPI_SUCCESS, position = 0, count = 0; long type_bytes = -1; std::vector<unsigned char> raw; };
struct UnpackOut { bool reached = false, ro = false; int rc = MPI_SUCCESS, position = 0, count = 0; long type_bytes = -1; };

static void do_pack(void const* buf, int count, MPI_Datatype dt, std::size_t cap_bytes, PackOut& po) {
	po.reached = true; po.count = count; po.raw.assign(cap_bytes, static_cast<unsigned char>(0xA5));
	if(ledger::state(dt) != ledger::DEAD && ledger::state(dt) != ledger::NUL) { int sz = 0; if(PMPI_Type_size(dt, &sz) == MPI_SUCCESS) { po.type_bytes = static_cast<long>(sz)*count; } }
	po.rc = MPI_Pack(buf, count, dt, po.raw.data(), static_cast<int>(po.raw.size()), &po.position, MPI_COMM_SELF);
}

template<class T> struct Root {
	std::vector<idx> sizes; idx N; std::string shape; std::shared_ptr<std::vector<State>> st;
	vo::GuardBuffer<T> gs, gd;   // element store of the source root / of the destination root, 16 guard elements on either side
	static idx prod(std::vector<idx> const& s) { idx n = 1; for(auto x : s) { n *= x; } return n; }
	explicit Root(std::vector<idx> const& s) : sizes(s), N(prod(s)), shape(sizes_str(s)), gs(N), gd(N) {}
	virtual ~Root() = default;
	void reset() {   // element values AND guards (a configuration that damaged a guard must not taint the following ones of the same child)
		for(idx i = 0; i < N; ++i) { gs.data()[i] = val<T>(1, i); gd.data()[i] = val<T>(2, i); }
		for(auto* g : {&gs, &gd}) { for(idx i = 0; i < vo::GuardBuffer<T>::G; ++i) { g->buf[static_cast<std::size_t>(i)] = vo::GuardBuffer<T>::sentinel(i); g->buf[static_cast<std::size_t>(vo::GuardBuffer<T>::G + N + i)] = vo::GuardBuffer<T>::sentinel(i + 100); } }
	}
	std::size_t cap_bytes() const { return static_cast<std::size_t>(N + 2*vo::GuardBuffer<T>::G + 8)*sizeof(T); }
	virtual void pack(int form, Hist const& h, PackOut& po) = 0;                           // on the source root
	virtual void unpack(Hist const& h, std::vector<T> const& in, UnpackOut& uo) = 0;       // on the destination root
};

template<class T, int D> struct RootD : Root<T> {
	multi::array_ref<T, D> rs, rd;
	explicit RootD(std::vector<idx> const& s) : Root<T>(s), rs(vo::make_extensions<D>(s), this->gs.data()), rd(vo::make_extensions<D>(s), this->gd.data()) {}
	void pack(int form, Hist const& h, PackOut& po) override {
		std::size_t cap = this->cap_bytes();
		walk(rs(), h.data(), static_cast<int>(h.size()), [&](auto&& v) {
			MPI_Datatype const dt = multi::mpi::datatype<T>;
			switch(form) {
				case F_MSG_PACK: case F_PAIR: { multi::mpi::message msg(v.elements()); do_pack(msg.buffer(), msg.count(), msg.datatype(), cap, po); break; }
				case F_SKEL_PACK: { multi::mpi::skeleton<T> sk(v.layout()); do_pack(v.base(), sk.count(), sk.datatype(), cap, po); break; }
				case F_MSGSK_PACK: { multi::mpi::message<> msg(const_cast<void*>(static_cast<void const*>(v.base())), multi::mpi::skeleton<>(v.layout(), dt)); do_pack(msg.buffer(), msg.count(), msg.datatype(), cap, po); break; }   // NOLINT(cppcoreguidelines-pro-type-const-cast) as the adaptor does
				case F_SKELREL_PACK: {   // datatype() && hands the datatype over to the caller, who frees it
					int count = 0; MPI_Datatype t = MPI_DATATYPE_NULL;
					{ multi::mpi::skeleton<T> sk(v.layout()); count = sk.count(); t = std::move(sk).datatype(); }
					do_pack(v.base(), count, t, cap, po);
					MPI_Type_free(&t); break;
				}
				case F_SUBARRAY_PACK: {
					MPI_Datatype t = MPI_DATATYPE_NULL;
					multi::mpi::create_subarray(v.layout(), dt, &t); MPI_Type_commit(&t);
					do_pack(v.base(), 1, t, cap, po);
					MPI_Type_free(&t); break;
				}
				case F_DATA_PACK:
					if constexpr(rank_of<decltype(v)> == 1) { if(v.size() > 0) { multi::mpi::data dd(v.begin()); do_pack(dd.buffer(), 1, dd.datatype(), cap, po); } }
					break;
				default: break;
			}
		});
	}
	void unpack(Hist const& h, std::vector<T> const& in, UnpackOut& uo) override {
		walk(rd(), h.data(), static_cast<int>(h.size()), [&](auto&& v) {
			uo.reached = true;
			if constexpr(is_ro_v<decltype(v)>) { uo.ro = true; }   // receiving into a read-only view type is not a use the property asks for
			else {
				multi::mpi::message msg(v.elements());
				uo.count = msg.count();
				if(ledger::state(msg.datatype()) == ledger::LIVE) { int sz = 0; if(PMPI_Type_size(msg.datatype(), &sz) == MPI_SUCCESS) { uo.type_bytes = static_cast<long>(sz)*uo.count; } }
				std::vector<T> inb(in); inb.push_back(T{});   // never a null input buffer, also for zero elements (MPI_Unpack rejects inbuf == NULL whatever the size)
				uo.rc = MPI_Unpack(inb.data(), static_cast<int>(in.size()*sizeof(T)), &uo.position, msg.buffer(), msg.count(), msg.datatype(), MPI_COMM_SELF);
			}
		});
	}
};

template<class T> std::unique_ptr<Root<T>> make_root(std::vector<idx> const& s) {
	switch(s.size()) {
		case 1: return std::make_unique<RootD<T, 1>>(s);
		case 2: return std::make_unique<RootD<T, 2>>(s);
		case 3: return std::make_unique<RootD<T, 3>>(s);
		case 4: return std::make_unique<RootD<T, 4>>(s);
		default: return nullptr;
	}
}

// ---- oracle helpers
template<class T> std::string seq_str(std::vector<T> const& v, std::size_t max = 12) { std::string s = "["; for(std::size_t i = 0; i < v.size() && i < max; ++i) { s += (i ? "," : ""); s += vstr(v[i]); } if(v.size() > max) { s += ",..."; } return s + "]"; }

static void ledger_symptoms(Outcome& o) {
	for(auto const& e : ledger::l().events) {
		bool dup = false; for(auto const& s : o.sy) { if(s.tag == "ledger:" + e.tag) { dup = true; } }
		if(!dup) { o.sy.push_back(Symptom{"ledger:" + e.tag, e.text}); }
	}
}

// judge the bytes produced by MPI_Pack against the expected element sequence
template<class T> void judge_pack(PackOut const& po, std::vector<T> const& expect, Outcome& o) {
	long want = static_cast<long>(expect.size()*sizeof(T));
	if(po.rc != MPI_SUCCESS) { return; }   // already a ledger / mpi-error symptom
	if(po.type_bytes >= 0 && po.type_bytes != want) { o.sy.push_back(Symptom{"type-size", "count*size(datatype) = " + std::to_string(po.type_bytes) + " bytes (count " + std::to_string(po.count) + "), the view has " + std::to_string(expect.size()) + " element(s) = " + std::to_string(want) + " bytes"}); return; }
	if(po.position != want) { o.sy.push_back(Symptom{"packed-count", "MPI_Pack produced " + std::to_string(po.position) + " bytes, expected " + std::to_string(want)}); return; }
	std::vector<T> got(expect.size()); if(!got.empty()) { std::memcpy(got.data(), po.raw.data(), static_cast<std::size_t>(want)); }
	for(std::size_t k = 0; k < expect.size(); ++k) {
		if(!(got[k] == expect[k])) { o.sy.push_back(Symptom{"packed-elements", "packed element " + std::to_string(k) + ": expected " + vstr(expect[k]) + " got " + vstr(got[k]) + "; expected sequence " + seq_str(expect) + " packed " + seq_str(got)}); return; }
	}
	for(std::size_t b = static_cast<std::size_t>(want); b < po.raw.size(); ++b) { if(po.raw[b] != 0xA5) { o.sy.push_back(Symptom{"pack-overrun", "byte " + std::to_string(b) + " of the pack buffer, beyond the reported position, was written"}); return; } }
}
template<class T> bool store_is(vo::GuardBuffer<T> const& g, std::vector<T> const& want, std::string& why) {
	for(std::size_t i = 0; i < want.size(); ++i) { T got = g.buf[static_cast<std::size_t>(vo::GuardBuffer<T>::G) + i]; if(!(got == want[i])) { why = "store element " + std::to_string(i) + ": expected " + vstr(want[i]) + " got " + vstr(got); return false; } }
	if(!g.intact()) { why = "guard elements around the store were modified"; return false; }
	return true;
}

// run ONE configuration in this process.  s = state of root A (source store), d = state of root B (destination store); singles use only A.
template<class T> Outcome run_cfg(int form, Root<T>& A, State const& s, Root<T>* B, State const* d) {
	Outcome o;
	try {
		A.reset(); if(B && B != &A) { B->reset(); }
		std::vector<T> src0(A.gs.data(), A.gs.data() + A.N), dst0A(A.gd.data(), A.gd.data() + A.N);
		std::vector<T> canon; for(auto off : s.offs) { canon.push_back(src0[static_cast<std::size_t>(off)]); }
		std::string why;
		ledger::begin();
		if(form == F_MSG_UNPACK) {
			std::vector<T> in; for(std::size_t k = 0; k < s.offs.size(); ++k) { in.push_back(val<T>(7, static_cast<idx>(k))); }
			std::vector<T> want = dst0A; for(std::size_t k = 0; k < s.offs.size(); ++k) { want[static_cast<std::size_t>(s.offs[k])] = in[k]; }
			UnpackOut uo; A.unpack(s.h, in, uo);
			ledger::end(); ledger_symptoms(o);
			if(!uo.reached || uo.ro) { o.kind = 'N'; return o; }
			long bytes = static_cast<long>(in.size()*sizeof(T));
			if(uo.rc == MPI_SUCCESS) {
				if(uo.type_bytes >= 0 && uo.type_bytes != bytes) { o.sy.push_back(Symptom{"type-size", "count*size(datatype) = " + std::to_string(uo.type_bytes) + " bytes, the view has " + std::to_string(in.size()) + " element(s)"}); }
				else if(uo.position != bytes) { o.sy.push_back(Symptom{"unpacked-count", "MPI_Unpack consumed " + std::to_string(uo.position) + " bytes of " + std::to_string(bytes)}); }
				else if(!store_is(A.gd, want, why)) { o.sy.push_back(Symptom{why[0] == 'g' ? "guard" : "unpacked-elements", "destination " + why + " (k-th value must land on the k-th canonical element, everything else unchanged)"}); }
			}
			if(!store_is(A.gs, src0, why)) { o.sy.push_back(Symptom{"bystander-modified", "unrelated " + why}); }
		} else if(form == F_PAIR) {
			std::vector<T> dst0(B->gd.data(), B->gd.data() + B->N);
			PackOut po; A.pack(form, s.h, po);
			ledger::end(); ledger_symptoms(o);
			if(!po.reached) { o.kind = 'N'; return o; }
			judge_pack(po, canon, o);
			if(o.sy.empty()) {
				std::vector<T> in(canon.size()); if(!in.empty()) { std::memcpy(in.data(), po.raw.data(), in.size()*sizeof(T)); }
				std::vector<T> want = dst0; for(std::size_t k = 0; k < d->offs.size(); ++k) { want[static_cast<std::size_t>(d->offs[k])] = canon[k]; }
				ledger::begin();
				UnpackOut uo; B->unpack(d->h, in, uo);
				ledger::end(); ledger_symptoms(o);
				if(!uo.reached || uo.ro) { o.kind = 'N'; return o; }
				struct Mark { Outcome& o; ~Mark() { for(auto& y : o.sy) { y.tag = "@d " + y.tag; } } } mark{o};   // everything found from here on belongs to the destination side (the pack phase was clean)
				long bytes = static_cast<long>(in.size()*sizeof(T));
				if(uo.rc == MPI_SUCCESS) {
					if(uo.position != bytes) { o.sy.push_back(Symptom{"unpacked-count", "MPI_Unpack consumed " + std::to_string(uo.position) + " bytes of " + std::to_string(bytes)}); }
					else if(!store_is(B->gd, want, why)) { o.sy.push_back(Symptom{why[0] == 'g' ? "guard" : "unpacked-elements", "destination " + why + " (k-th canonical element of the source must land on the k-th canonical element of the destination, everything else unchanged)"}); }
				}
			}
			if(!store_is(A.gs, src0, why)) { o.sy.push_back(Symptom{"source-modified", "source " + why}); }
			if(B != &A) { std::vector<T> bs0; for(idx i = 0; i < B->N; ++i) { bs0.push_back(val<T>(1, i)); } if(!store_is(B->gs, bs0, why) || !store_is(A.gd, dst0A, why)) { o.sy.push_back(Symptom{"bystander-modified", "unrelated " + why}); } }
		} else {
			std::vector<T> expect = canon;
			if(form == F_DATA_PACK) { expect.resize(std::min<std::size_t>(1, expect.size())); }
			PackOut po; A.pack(form, s.h, po);
			ledger::end(); ledger_symptoms(o);
			if(!po.reached) { o.kind = 'N'; return o; }
			judge_pack(po, expect, o);
			if(!store_is(A.gs, src0, why)) { o.sy.push_back(Symptom{"source-modified", "source " + why}); }
			if(!store_is(A.gd, dst0A, why)) { o.sy.push_back(Symptom{"bystander-modified", "unrelated " + why}); }
		}
	} catch(std::exception const& e) { o.kind = 'R'; o.sy.clear(); o.sy.push_back(Symptom{"exception", e.what()}); ledger::begin(); return o;
	} catch(...) { o.kind = 'R'; o.sy.clear(); o.sy.push_back(Symptom{"exception", "unknown exception"}); ledger::begin(); return o; }
	o.kind = o.sy.empty() ? 'C' : 'V';
	return o;
}

// ===================================================================== exploration of the state sets =====================================================================
struct ShapeStates { std::vector<idx> sizes; std::shared_ptr<std::vector<State>> st; long c01_bad = 0; vm::Stats stats; };

template<int D> void explore(ShapeStates& ss, Config const& cfg, std::set<std::string> const& skip) {
	idx N = 1; for(auto s : ss.sizes) { N *= s; }
	vo::GuardBuffer<int> g(N); for(idx i = 0; i < N; ++i) { g.data()[i] = static_cast<int>(1000 + i); }
	multi::array_ref<int, D> r(vo::make_extensions<D>(ss.sizes), g.data());
	ss.st = std::make_shared<std::vector<State>>();
	ss.stats = bfs(r, root_model(ss.sizes), cfg, skip, [&](auto&& v, MView const& m, Hist const& h) -> bool {
		if(vo::check_view(v, m, g.data(), N).bad) { ++ss.c01_bad; return false; }   // a view that already fails C01 is not a vehicle for C18
		State s; s.h = h; s.m = m; finish_state(s); ss.st->push_back(std::move(s)); return true;
	}, sizes_str(ss.sizes) + "/");
}
static void explore_any(ShapeStates& ss, Config const& cfg, std::set<std::string> const& skip) {
	switch(ss.sizes.size()) { case 1: explore<1>(ss, cfg, skip); break; case 2: explore<2>(ss, cfg, skip); break; case 3: explore<3>(ss, cfg, skip); break; case 4: explore<4>(ss, cfg, skip); break; default: break; }
}

struct Cfg { unsigned char t, form; short sr, dr; int ss, ds; };   // t: 0 int, 1 double; sr/dr: shape index; ss/ds: state index

struct World {
	std::vector<ShapeStates> shapes;
	std::vector<std::unique_ptr<Root<int>>> ri; std::vector<std::unique_ptr<Root<double>>> rd;
	template<class T> std::vector<std::unique_ptr<Root<T>>>& roots() { if constexpr(std::is_same_v<T, int>) { return ri; } else { return rd; } }
};
static World W;

static std::string replay_of(Cfg const& c) {
	auto const& S = W.shapes[static_cast<std::size_t>(c.sr)];
	std::string r = std::string(c.t == 0 ? "int" : "double") + "/" + form_tag[c.form] + "/" + sizes_str(S.sizes) + "/" + hist_str((*S.st)[static_cast<std::size_t>(c.ss)].h);
	if(c.form == F_PAIR) { auto const& Dd = W.shapes[static_cast<std::size_t>(c.dr)]; r += "/" + sizes_str(Dd.sizes) + "/" + hist_str((*Dd.st)[static_cast<std::size_t>(c.ds)].h); }
	return r;
}
template<class T> Outcome run_typed(Cfg const& c) {
	auto& A = *W.roots<T>()[static_cast<std::size_t>(c.sr)];
	State const& s = (*W.shapes[static_cast<std::size_t>(c.sr)].st)[static_cast<std::size_t>(c.ss)];
	if(c.form != F_PAIR) { return run_cfg<T>(c.form, A, s, nullptr, nullptr); }
	auto& B = *W.roots<T>()[static_cast<std::size_t>(c.dr)];
	State const& d = (*W.shapes[static_cast<std::size_t>(c.dr)].st)[static_cast<std::size_t>(c.ds)];
	return run_cfg<T>(c.form, A, s, &B, &d);
}
static Outcome run_any(Cfg const& c) { return c.t == 0 ? run_typed<int>(c) : run_typed<double>(c); }

static std::string key_of_cfg(Cfg const& c, std::string const& symptom) {
	State const& s = (*W.shapes[static_cast<std::size_t>(c.sr)].st)[static_cast<std::size_t>(c.ss)];
	std::string k = std::string(form_name[c.form]) + "|" + (c.t == 0 ? "int" : "double") + "|";
	if(c.form == F_PAIR) {   // a pair is keyed by the side on which it failed: the pack phase (source view) or, after a clean pack, the unpack phase (destination view)
		State const& d = (*W.shapes[static_cast<std::size_t>(c.dr)].st)[static_cast<std::size_t>(c.ds)];
		if(symptom.rfind("@d ", 0) == 0) { return k + "destination " + d.lclass + "|" + d.sclass + "|" + symptom.substr(3); }
		return k + "source " + s.lclass + "|" + s.sclass + "|" + symptom;
	}
	return k + s.lclass + "|" + s.sclass + "|" + symptom;
}
static std::string json_of_cfg(Cfg const& c, char const* outcome, Symptom const& sy) {
	State const& s = (*W.shapes[static_cast<std::size_t>(c.sr)].st)[static_cast<std::size_t>(c.ss)];
	auto const& S = W.shapes[static_cast<std::size_t>(c.sr)];
	mc::J j; j.s("harness", "mpimc").s("replay", replay_of(c)).s("operation", form_name[c.form]).s("element_type", c.t == 0 ? "int" : "double")
		.s("source_root", "array_ref<" + std::string(c.t == 0 ? "int" : "double") + "," + std::to_string(S.sizes.size()) + "> of extents {" + sizes_str(S.sizes) + "} over a guard buffer")
		.s("source_view", hist_str(s.h).empty() ? "(the root itself)" : hist_str(s.h)).s("source_model", key_of(s.m)).s("source_layout", s.lclass).s("source_sizes", s.sclass).n("num_elements", static_cast<long long>(s.offs.size()));
	if(c.form == F_PAIR) {
		State const& d = (*W.shapes[static_cast<std::size_t>(c.dr)].st)[static_cast<std::size_t>(c.ds)];
		j.s("destination_root_extents", sizes_str(W.shapes[static_cast<std::size_t>(c.dr)].sizes)).s("destination_view", hist_str(d.h).empty() ? "(the root itself)" : hist_str(d.h)).s("destination_model", key_of(d.m)).s("destination_layout", d.lclass);
	}
	j.s("outcome", outcome).s("symptom", sy.tag.rfind("@d ", 0) == 0 ? sy.tag.substr(3) : sy.tag).s("detail", sy.detail);
	return j.str();
}

// ===================================================================== batches in forked children =====================================================================
struct Progress { volatile long idx; volatile long led[5]; };   // shared with the child: configuration being executed, ledger totals so far
static Progress* g_prog = nullptr;
static long g_eval = 0, g_nontriv = 0, g_correct = 0, g_rejected = 0, g_violating = 0, g_na = 0;
static long g_form_n[NFORMS] = {};
static long g_led[5] = {};
static std::vector<char> g_kind;   // outcome of every configuration of this shard, by position ('C','R','V','N'; 0 = not executed)   // created, freed, commits, packs, unpacks (summed over children)

static std::string clean(std::string s) { for(auto& ch : s) { if(ch == '\t' || ch == '\n' || ch == '\r') { ch = ' '; } } if(s.size() > 600) { s.resize(600); } return s; }

static bool cfg_nontrivial(Cfg const& c) {
	State const& s = (*W.shapes[static_cast<std::size_t>(c.sr)].st)[static_cast<std::size_t>(c.ss)];
	if(c.form != F_PAIR) { return s.nontrivial; }
	return s.nontrivial && (*W.shapes[static_cast<std::size_t>(c.dr)].st)[static_cast<std::size_t>(c.ds)].nontrivial;
}
static void account(std::size_t pos, Cfg const& c, char kind, std::vector<Symptom> const& sy) {
	if(pos < g_kind.size()) { g_kind[pos] = kind; }
	if(kind == 'N') { ++g_na; return; }
	++g_eval; ++g_form_n[c.form]; if(cfg_nontrivial(c)) { ++g_nontriv; }
	if(kind == 'C') { ++g_correct; mc::R.outcome(std::string(form_tag[c.form]) + "|" + (*W.shapes[static_cast<std::size_t>(c.sr)].st)[static_cast<std::size_t>(c.ss)].lclass + "|" + (*W.shapes[static_cast<std::size_t>(c.dr)].st)[static_cast<std::size_t>(c.ds)].lclass + "|correct"); return; }
	if(kind == 'R') { ++g_rejected; mc::R.outcome("rejected:" + (sy.empty() ? std::string() : sy[0].tag)); return; }
	++g_violating;
	for(auto const& s : sy) { mc::R.violation(key_of_cfg(c, s.tag), json_of_cfg(c, "violation", s)); mc::R.outcome(s.tag); }
}

static void run_batches(std::vector<Cfg> const& cfgs, std::size_t batch) {
	if(!g_prog) { g_prog = static_cast<Progress*>(mmap(nullptr, sizeof(Progress), PROT_READ | PROT_WRITE, MAP_SHARED | MAP_ANONYMOUS, -1, 0)); }
	std::size_t pos = 0; g_kind.assign(cfgs.size(), 0);
	while(pos < cfgs.size()) {
		if(mc::past_deadline()) { mc::R.exhaustive = false; mc::R.note("deadline: " + std::to_string(cfgs.size() - pos) + " configurations of this shard not executed"); return; }
		std::size_t end = std::min(cfgs.size(), pos + batch);
		int pfd[2]; if(pipe(pfd) != 0) { mc::R.exhaustive = false; return; }
		int err = memfd_create("mpimc_err", 0);
		g_prog->idx = static_cast<long>(pos); for(auto& x : g_prog->led) { x = 0; }
		mc::cur_set("batch", replay_of(cfgs[pos]));
		std::fflush(stdout); std::fflush(stderr);
		pid_t pid = fork();
		if(pid == 0) {
			close(pfd[0]); dup2(err, 2);
			std::size_t i = pos;
			for(; i < end; ++i) {
				if(mc::past_deadline()) { break; }
				g_prog->idx = static_cast<long>(i);
				alarm(30);
				Outcome o = run_any(cfgs[i]);
				{ auto const& L = ledger::l(); long const v[5] = {L.created, L.freed, L.commits, L.packs, L.unpacks}; for(int k = 0; k < 5; ++k) { g_prog->led[k] = v[k]; } }
				if(o.kind != 'C') {
					std::string line = std::to_string(i) + "\t" + o.kind;
					for(auto const& s : o.sy) { line += "\t" + clean(s.tag) + "\t" + clean(s.detail); }
					line += "\n";
					if(write(pfd[1], line.data(), line.size()) < 0) { _exit(3); }
				}
			}
			alarm(0);
			g_prog->idx = static_cast<long>(i);
			std::string line = "done\t" + std::to_string(i) + "\n";
			if(write(pfd[1], line.data(), line.size()) < 0) { _exit(3); }
			_exit(0);
		}
		close(pfd[1]);
		std::string out; { char buf[65536]; for(;;) { auto n = read(pfd[0], buf, sizeof buf); if(n <= 0) { break; } out.append(buf, static_cast<std::size_t>(n)); } }
		close(pfd[0]);
		int st = 0; waitpid(pid, &st, 0);
		std::string se = mc::read_fd_all(err); close(err);
		for(int k = 0; k < 5; ++k) { g_led[k] += g_prog->led[k]; }
		// records of the configurations that completed
		std::map<std::size_t, std::pair<char, std::vector<Symptom>>> rec; long done_at = -1;
		{
			std::istringstream is(out); std::string line;
			while(std::getline(is, line)) {
				std::vector<std::string> f; { std::string cur; for(char ch : line) { if(ch == '\t') { f.push_back(cur); cur.clear(); } else { cur += ch; } } f.push_back(cur); }
				if(f.size() >= 2 && f[0] == "done") { done_at = std::atol(f[1].c_str()); continue; }
				if(f.size() < 2 || f[1].empty()) { continue; }
				auto& r = rec[static_cast<std::size_t>(std::atol(f[0].c_str()))]; r.first = f[1][0];
				for(std::size_t k = 2; k + 1 < f.size(); k += 2) { r.second.push_back(Symptom{f[k], f[k + 1]}); }
			}
		}
		bool clean_exit = WIFEXITED(st) && WEXITSTATUS(st) == 0 && done_at >= 0;
		std::size_t completed_to = clean_exit ? static_cast<std::size_t>(done_at) : static_cast<std::size_t>(g_prog->idx);   // configurations [pos, completed_to) ran to completion
		for(std::size_t i = pos; i < completed_to && i < end; ++i) {
			auto it = rec.find(i);
			if(it == rec.end()) { account(i, cfgs[i], 'C', {}); } else { account(i, cfgs[i], it->second.first, it->second.second); }
		}
		if(clean_exit) {
			if(completed_to < end) { mc::R.exhaustive = false; mc::R.note("deadline: " + std::to_string(cfgs.size() - completed_to) + " configurations of this shard not executed"); return; }
			pos = end; continue;
		}
		// the child died while executing configuration completed_to
		std::size_t culprit = completed_to;
		if(culprit >= end) { pos = end; continue; }
		std::string cause = WIFSIGNALED(st) ? ("signal " + std::to_string(WTERMSIG(st))) : ("exit status " + std::to_string(WEXITSTATUS(st)));
		std::string cls = mc::crash_class(se);
		bool lib_assert = WIFSIGNALED(st) && WTERMSIG(st) == SIGABRT && cls == "assertion" && se.find("include/boost/multi") != std::string::npos;
		if(lib_assert) { account(culprit, cfgs[culprit], 'R', {Symptom{"assertion", mc::crash_digest(se)}}); }
		else {
			std::string tag = "crash:" + (cls == "assertion" ? std::string("foreign-assertion") : cls == "signal" ? cause : cls);
			account(culprit, cfgs[culprit], 'V', {Symptom{tag, "the child died (" + cause + "): " + clean(mc::crash_digest(se))}});
		}
		pos = culprit + 1;
	}
}

// ===================================================================== grid =====================================================================
static std::vector<std::vector<idx>> shape_list(bool thorough) {
	std::vector<std::vector<idx>> s = {{6}, {2, 3}, {4, 2}, {2, 3, 2}, {2, 1, 2, 3}};
	if(thorough) { s.push_back({3, 4}); s.push_back({2, 2, 3}); }
	return s;
}
static Config bfs_config(int depth) {
	Config cfg; cfg.maxdepth = depth;
	cfg.menu0.call_full = true; cfg.menu0.call_maxargs = 3; cfg.menu.call_full = false; cfg.menu.call_maxargs = 2; cfg.full_call_depth = 1;   // the alphabet of C01 (viewmc)
	return cfg;
}
static void build_roots() {
	for(auto const& ss : W.shapes) { W.ri.push_back(make_root<int>(ss.sizes)); W.rd.push_back(make_root<double>(ss.sizes)); W.ri.back()->st = ss.st; W.rd.back()->st = ss.st; }
}

// pairs of one class (lists S of source states and Dd of destination states): everything when the product is <= cap, otherwise max(cap, |S|, |Dd|) pairs chosen
// deterministically so that every source state and every destination state of the class takes part at least once
template<class F> void select_pairs(std::vector<int> const& S, std::vector<int> const& Dd, std::size_t cap, F&& f) {
	std::size_t a = S.size(), b = Dd.size();
	if(a*b <= cap) { for(auto s : S) { for(auto d : Dd) { f(s, d); } } return; }
	std::size_t want = std::max(cap, std::max(a, b));
	std::set<std::pair<std::size_t, std::size_t>> seen;
	for(std::size_t t = 0; t < std::max(a, b); ++t) { if(seen.insert({t % a, t % b}).second) { f(S[t % a], Dd[t % b]); } }
	for(std::size_t q = 1; q < b && seen.size() < want; ++q) { for(std::size_t i = 0; i < a && seen.size() < want; ++i) { std::size_t jj = (i*7 + q*3) % b; if(seen.insert({i, jj}).second) { f(S[i], Dd[jj]); } } }
}

static int do_replay(std::string const& arg, int depth_unused);
static std::vector<idx> parse_sizes(std::string const& s);

int main(int argc, char** argv) {
	mc::Args args(argc, argv);
	bool thorough = args.get("tier", "quick") == "thorough";
	long shard = args.geti("shard", 0), nshards = std::max(1L, args.geti("nshards", 1));
	int depth = static_cast<int>(args.geti("depth", thorough ? 3 : 2));
	std::size_t cap = static_cast<std::size_t>(args.geti("cap", thorough ? 48 : 24));
	std::size_t batch = static_cast<std::size_t>(args.geti("batch", 1000));
	mc::set_deadline(static_cast<double>(args.geti("deadline", 3000)));

	{ int fd = dup(1); int nul = open("/dev/null", O_WRONLY); dup2(nul, 1); MPI_Init(&argc, &argv); std::fflush(stdout); dup2(fd, 1); close(fd); close(nul); }   // nothing but protocol lines on stdout
	MPI_Comm_set_errhandler(MPI_COMM_WORLD, MPI_ERRORS_RETURN); MPI_Comm_set_errhandler(MPI_COMM_SELF, MPI_ERRORS_RETURN);   // the adaptor ignores return codes: errors are recorded by the ledger instead of aborting
	ledger::l().active = true;

	int rc = 0;
	if(args.has("replay")) { rc = do_replay(args.get("replay"), depth); }
	else if(args.has("replay-trace")) {   // trace published by a crashed explorer process: either a configuration (as --replay) or '<sizes>/<view trace>' of the state search
		std::string tr = args.get("replay-trace");
		if(tr.rfind("int/", 0) == 0 || tr.rfind("double/", 0) == 0) { rc = do_replay(tr, depth); }
		else {
			auto p1 = tr.find('/'); std::string sz = tr.substr(0, p1), hs = p1 == std::string::npos ? "" : tr.substr(p1 + 1);
			rc = vo::replay_one(parse_sizes(sz), false, parse_hist(hs));   // C01 oracle on the state the search was about to create
			if(rc == 0) { rc = do_replay("int/msg-pack/" + sz + "/" + hs, depth); }
		}
	}
	else {
		rc = mc::supervise([&](std::set<std::string> const& skip) {
			for(auto const& s : shape_list(thorough)) { ShapeStates ss; ss.sizes = s; W.shapes.push_back(ss); }
			Config cfg = bfs_config(depth);
			long nstates = 0, ntrans = 0;
			for(auto& ss : W.shapes) {
				explore_any(ss, cfg, skip);
				nstates += static_cast<long>(ss.st->size()); ntrans += ss.stats.transitions;
				if(ss.stats.capped) { mc::R.exhaustive = false; }
				if(shard == 0) { mc::R.note("root {" + sizes_str(ss.sizes) + "}: depth=" + std::to_string(ss.stats.completed_depth) + " states=" + std::to_string(ss.st->size()) + " transitions=" + std::to_string(ss.stats.transitions) + (ss.c01_bad ? " excluded(fail C01)=" + std::to_string(ss.c01_bad) : "")); }
				if(ss.c01_bad) { mc::R.add("states_excluded_failing_C01", ss.c01_bad); }
			}
			build_roots();
			// ---- enumerate the grid (identically in every shard), keep this shard's share
			std::vector<Cfg> mine; long total = 0, total_single = 0, total_pairs = 0, full_pairs = 0, classes = 0, capped_classes = 0;
			auto take = [&](Cfg const& c) { if((total++ % nshards) == shard) { mine.push_back(c); } };
			for(int t = 0; t < 2; ++t) {
				for(std::size_t r = 0; r < W.shapes.size(); ++r) {
					auto const& st = *W.shapes[r].st;
					for(std::size_t i = 0; i < st.size(); ++i) {
						for(int f : {F_MSG_PACK, F_MSG_UNPACK, F_SKEL_PACK, F_MSGSK_PACK, F_SKELREL_PACK, F_SUBARRAY_PACK, F_DATA_PACK}) {
							if(f == F_MSG_UNPACK && st[i].m.ro) { continue; }
							if(f == F_DATA_PACK && (st[i].m.rank() != 1 || st[i].offs.empty())) { continue; }
							++total_single; take(Cfg{static_cast<unsigned char>(t), static_cast<unsigned char>(f), static_cast<short>(r), static_cast<short>(r), static_cast<int>(i), static_cast<int>(i)});
						}
					}
				}
			}
			for(int t = 0; t < 2; ++t) {
				for(std::size_t ra = 0; ra < W.shapes.size(); ++ra) { for(std::size_t rb = 0; rb < W.shapes.size(); ++rb) {
					auto const& sa = *W.shapes[ra].st; auto const& sb = *W.shapes[rb].st;
					std::map<std::string, std::vector<int>> ca, cb;   // class = (num_elements, rank:layout class)
					auto cname = [](State const& s) { char b[16]; std::snprintf(b, sizeof b, "%03zu|", s.offs.size()); return std::string(b); };
					for(std::size_t i = 0; i < sa.size(); ++i) { ca[cname(sa[i]) + sa[i].lclass].push_back(static_cast<int>(i)); }
					for(std::size_t i = 0; i < sb.size(); ++i) { if(!sb[i].m.ro) { cb[cname(sb[i]) + sb[i].lclass].push_back(static_cast<int>(i)); } }
					for(auto const& [ka, la] : ca) { for(auto const& [kb, lb] : cb) {
						if(ka.substr(0, 4) != kb.substr(0, 4)) { continue; }
						++classes; full_pairs += static_cast<long>(la.size()*lb.size()); if(la.size()*lb.size() > cap) { ++capped_classes; }
						select_pairs(la, lb, cap, [&](int s, int d) { ++total_pairs; take(Cfg{static_cast<unsigned char>(t), F_PAIR, static_cast<short>(ra), static_cast<short>(rb), s, d}); });
					} }
				} }
			}
			if(shard == 0) { mc::R.note("single-state configurations: " + std::to_string(total_single) + " = 2 element types x states x {message(elements) pack, message(elements) unpack (mutable view types), skeleton(layout) pack, message(base,skeleton&&) pack, skeleton.datatype()&& pack, create_subarray pack, data(begin) pack (1-D non-empty)}"); }
			if(shard == 0) { mc::R.note("pair configurations: " + std::to_string(total_pairs) + " executed of " + std::to_string(full_pairs) + " ordered (source state, destination state) pairs with equal num_elements over all ordered root pairs x 2 element types; "
				+ std::to_string(classes) + " classes (element type, source root, destination root, num_elements, rank:layout class of either side), cap " + std::to_string(cap) + " per class (" + std::to_string(capped_classes) + " classes capped; a capped class still uses every one of its source and destination states)"); }
			mc::R.note("shard " + std::to_string(shard) + "/" + std::to_string(nshards) + ": " + std::to_string(mine.size()) + " of " + std::to_string(total) + " configurations");
			if(capped_classes) { mc::R.add("pair_classes_capped", shard == 0 ? capped_classes : 0); }
			run_batches(mine, batch);
			// ---- written-out samples = determinism self-check: re-run in THIS process one non-degenerate configuration per operation form that the children found correct
			if(mc::R.viol.empty()) {
				for(int f : {F_MSG_PACK, F_MSG_UNPACK, F_SUBARRAY_PACK, F_PAIR}) {
					for(std::size_t i = 0; i < mine.size(); ++i) {
						Cfg const& c = mine[i]; if(c.form != f || g_kind[i] != 'C' || skip.count(replay_of(c))) { continue; }
						State const& s = (*W.shapes[static_cast<std::size_t>(c.sr)].st)[static_cast<std::size_t>(c.ss)];
						if(s.offs.size() < 4 || s.m.rank() < 2 || s.lclass.find("contiguous") != std::string::npos) { continue; }
						if(f == F_PAIR && (*W.shapes[static_cast<std::size_t>(c.dr)].st)[static_cast<std::size_t>(c.ds)].lclass.find("permuted") == std::string::npos) { continue; }
						mc::cur_set("sample", replay_of(c));
						Outcome o = run_any(c); if(o.kind == 'N') { continue; }
						std::string offs; for(auto x : s.offs) { offs += (offs.empty() ? "" : ","); offs += std::to_string(x); }
						mc::J j; j.s("replay", replay_of(c)).s("operation", form_name[c.form]).s("source_model", key_of(s.m)).s("source_layout", s.lclass).s("canonical_offsets_in_source_store", offs);
						if(f == F_PAIR) { State const& d = (*W.shapes[static_cast<std::size_t>(c.dr)].st)[static_cast<std::size_t>(c.ds)]; std::string od; for(auto x : d.offs) { od += (od.empty() ? "" : ","); od += std::to_string(x); } j.s("destination_model", key_of(d.m)).s("destination_layout", d.lclass).s("canonical_offsets_in_destination_store", od); }
						j.s("outcome_in_child", "correct").s("outcome_again_in_parent", o.kind == 'C' ? "correct" : o.kind == 'R' ? "rejected" : "violation");
						mc::R.sample(j.str(), 4);
						if(o.kind == 'V') { for(auto const& sy : o.sy) { mc::R.violation(key_of_cfg(c, sy.tag + "|only-when-repeated"), json_of_cfg(c, "violation", sy)); } }
						break;
					}
				}
			}
			mc::R.add("states", shard == 0 ? nstates : 0); mc::R.add("transitions", shard == 0 ? ntrans : 0);
			mc::R.add("evaluations", g_eval); mc::R.add("distinct_nontrivial", g_nontriv); mc::R.add("correct", g_correct); mc::R.add("rejected", g_rejected); mc::R.add("violating_configurations", g_violating);
			if(g_na) { mc::R.add("not_applicable", g_na); }
			for(int f = 0; f < NFORMS; ++f) { mc::R.add(std::string("n_") + form_tag[f], g_form_n[f]); }
			mc::R.add("datatypes_created", g_led[0]); mc::R.add("datatypes_freed", g_led[1]); mc::R.add("datatype_commits", g_led[2]); mc::R.add("mpi_pack_calls", g_led[3]); mc::R.add("mpi_unpack_calls", g_led[4]);
			mc::R.emit(stdout);
		});
	}
	ledger::l().active = false;
	std::fflush(stdout);
	{ int nul = open("/dev/null", O_WRONLY); dup2(nul, 1); dup2(nul, 2); MPI_Finalize(); }
	return rc;
}

// ===================================================================== replay of one configuration, in-process =====================================================================
static std::vector<idx> parse_sizes(std::string const& s) { std::vector<idx> r; std::string cur; for(char c : s + "x") { if(c == 'x') { r.push_back(std::atol(cur.c_str())); cur.clear(); } else { cur += c; } } return r; }
static bool state_from(std::vector<idx> const& sizes, std::string const& hs, State& s) {
	s.h = parse_hist(hs); s.m = root_model(sizes);
	for(auto const& o : s.h) { if(!m_apply(s.m, o)) { return false; } }
	finish_state(s); return true;
}
static int do_replay(std::string const& arg, int) {
	std::vector<std::string> f; { std::string cur; for(char c : arg) { if(c == '/') { f.push_back(cur); cur.clear(); } else { cur += c; } } f.push_back(cur); }
	if(f.size() == 3) { f.push_back(""); } if(f.size() == 5) { f.push_back(""); }
	int form = -1; for(int k = 0; k < NFORMS; ++k) { if(f.size() >= 2 && f[1] == form_tag[k]) { form = k; } }
	if(f.size() < 4 || form < 0 || (f[0] != "int" && f[0] != "double") || (form == F_PAIR && f.size() < 6)) { std::printf("REPLAY cannot parse '%s' (expected <int|double>/<form>/<sizes>/<trace>[/<sizes>/<trace>])\n", arg.c_str()); return 2; }
	ShapeStates A; A.sizes = parse_sizes(f[2]); A.st = std::make_shared<std::vector<State>>(1);
	if(A.sizes.empty() || A.sizes.size() > 4 || !state_from(A.sizes, f[3], (*A.st)[0])) { std::printf("REPLAY out-of-domain source trace\n"); return 2; }
	W.shapes.push_back(A);
	Cfg c{static_cast<unsigned char>(f[0] == "int" ? 0 : 1), static_cast<unsigned char>(form), 0, 0, 0, 0};
	if(form == F_PAIR) {
		ShapeStates B; B.sizes = parse_sizes(f[4]); B.st = std::make_shared<std::vector<State>>(1);
		if(B.sizes.empty() || B.sizes.size() > 4 || !state_from(B.sizes, f[5], (*B.st)[0])) { std::printf("REPLAY out-of-domain destination trace\n"); return 2; }
		W.shapes.push_back(B); c.dr = 1;
	}
	build_roots();
	Outcome o = run_any(c);
	if(o.kind == 'C') { std::printf("REPLAY OK %s\n", replay_of(c).c_str()); return 0; }
	if(o.kind == 'R') { std::printf("REPLAY OK (rejected by an exception: %s)\n", o.sy.empty() ? "" : o.sy[0].detail.c_str()); return 0; }
	if(o.kind == 'N') { std::printf("REPLAY not applicable (trace not expressible on this tree, or a read-only view type as destination)\n"); return 2; }
	std::printf("REPLAY VIOLATION");
	for(auto const& s : o.sy) { std::printf(" [%s] %s", key_of_cfg(c, s.tag).c_str(), s.detail.c_str()); }
	std::printf("\n");
	return 1;
}
