"""Compile probes: expressions that must NOT compile (const-correctness of whole-view mutators, C16) and controls that must."""
import concurrent.futures as cf
import hashlib
import os
import subprocess

from vcore import INC, BUILD

PRE = """#include <boost/multi/array.hpp>
#include <utility>
namespace multi = boost::multi;
void probe() {
	multi::array<int, %(D)d> A(multi::extensions_t<%(D)d>{%(EXT)s}, 0); auto const& cA = A;
	multi::array<int, %(D)d> B(A);
	multi::static_array<int, %(D)d> S(A); auto const& cS = S;
	multi::array_ref<int, %(D)d> R(A.data_elements(), A.extensions()); auto const& cR = R;
	auto&& V = A(); auto const& cV = A();
	(void)cA; (void)cS; (void)cR; (void)V; (void)cV; (void)B; (void)R;
	%(STMT)s
}
"""

# access paths (applied to a root expression X) that keep the rank, so that the same mutators apply
PATHS_KEEP = ["{X}", "{X}()", "{X}.rotated().unrotated()", "{X}.sliced(0, 2)", "{X}({{0, 2}})", "{X}(multi::_)", "{X}.unrotated().rotated()", "std::as_const({X})", "{X}.taked(2)", "{X}.dropped(0)", "{X}.strided(1)"]
PATHS_D2_KEEP = ["{X}.transposed().transposed()", "(~~{X})", "{X}.partitioned(1)[0]", "{X}.reversed().reversed()"]


PROXY_PATHS = ["{X}[1][2]", "{X}(1, 2)", "{X}[1].front()", "{X}[1].back()", "{X}.rotated()[2].back()", "*{X}[1].begin()", "*{X}.elements().begin()", "{X}.elements()[3]", "{X}()[1][2]",
               "{X}.sliced(0,2)[1][2]", "(*{X}.begin())[2]", "{X}.transposed()[2][1]", "{X}.home()[1][2]", "{X}[1].elements()[2]", "{X}.diagonal()[1]", "{X}.flatted()[5]", "{X}[1](2)", "{X}.rotated()[2][1]",
               "{X}({{0, 2}}, 1)[1]", "*{X}.diagonal().begin()"]


TRANSFORMED_PATHS = ["{X}[1][2]", "{X}(1, 2)", "*{X}[1].begin()", "*{X}.elements().begin()", "{X}.elements()[3]", "{X}()[1][2]", "{X}.sliced(0,2)[1][2]", "(*{X}.begin())[2]",
                     "{X}.transposed()[2][1]", "{X}.rotated()[2][1]", "{X}[1].front()", "{X}.strided(1)[1][2]", "{X}.home()[1][2]", "{X}.diagonal()[1]"]


def mutators(D):
    m = [("assign-array", "{E} = B;"), ("assign-view", "{E} = B();"), ("elements-assign", "{E}.elements() = B.elements();"), ("swap", "{{ using std::swap; swap({E}(), B()); }}"),
         ("element-write", "{E}" + "[0]" * D + " = 1;"), ("call-write", "{E}(" + ", ".join(["0"] * D) + ") = 1;"), ("begin-write", "(*{E}.begin())" + "[0]" * (D - 1) + " = 1;"),
         ("elements-write", "*{E}.elements().begin() = 1;"), ("home-write", "{E}.home()" + "[0]" * D + " = 1;")]
    if D == 1:
        m.append(("fill", "{E}.fill(1);"))
    else:
        m.append(("fill", "{E}.fill(B[0]);"))
    return m


def _compile(args):
    key, src, expect_ok = args
    d = os.path.join(BUILD, "probes")
    os.makedirs(d, exist_ok=True)
    import threading, uuid
    f = os.path.join(d, hashlib.sha1(src.encode()).hexdigest()[:16] + "_" + uuid.uuid4().hex[:8] + ".cpp")   # unique: identical probe texts may be compiled concurrently
    with open(f, "w") as fh:
        fh.write(src)
    r = subprocess.run(["g++", "-std=c++17", "-fsyntax-only", "-I" + INC, f], stdout=subprocess.PIPE, stderr=subprocess.PIPE, text=True)
    ok = r.returncode == 0
    first = next((l for l in r.stderr.splitlines() if "error" in l), "")
    try:
        os.unlink(f)
    except OSError:
        pass
    return key, ok, expect_ok, first[:300], src


def c16_probes(tier):
    """returns (violations: {key: rec}, stats dict, samples list)"""
    items = []
    dims = (2,) if tier == "quick" else (1, 2, 3)
    for D in dims:
        ext = ", ".join(["multi::iextension{3}"] * D)
        const_roots = ["cA", "cV"] if tier == "quick" else ["cA", "cS", "cR", "cV"]
        mut_roots = ["A", "V"] if tier == "quick" else ["A", "S", "R", "V", "A()"]
        paths = PATHS_KEEP + (PATHS_D2_KEEP if D >= 2 else [])
        if tier == "quick":
            paths = paths[:7] + (PATHS_D2_KEEP[:2] if D >= 2 else [])
        for name, m in mutators(D):
            for p in paths:
                for r in const_roots:
                    e = p.format(X=r)
                    stmt = m.format(E=e)
                    items.append(("D%d|const-path-accepts|%s|%s" % (D, name, p.format(X="<const " + ("array" if r == "cA" else "static_array" if r == "cS" else "array_ref" if r == "cR" else "view") + ">")), PRE % dict(D=D, EXT=ext, STMT=stmt), False))
                if "as_const" in p:
                    continue
                for r in mut_roots:
                    e = p.format(X=r)
                    stmt = m.format(E=e)
                    items.append(("D%d|mutable-path-rejects|%s|%s" % (D, name, p.format(X="<mutable " + {"A": "array", "S": "static_array", "R": "array_ref", "V": "view", "A()": "temporary view"}[r] + ">")), PRE % dict(D=D, EXT=ext, STMT=stmt), True))
    # the same question over a pointer type whose references are PROXY objects (engine/proxy_ptr.hpp): element-write paths through a const array_ref must be ill-formed
    ppre = """#include <boost/multi/array.hpp>
#include "%s/engine/proxy_ptr.hpp"
namespace multi = boost::multi;
void probe() { int buf[12] = {}; multi::array_ref<int, 2, proxy::ptr<int>> P(proxy::ptr<int>{buf}, {3, 4}); auto const& cP = P; (void)cP;
	%%s
}
""" % os.path.dirname(os.path.abspath(__file__))
    for pth in PROXY_PATHS:
        for root, exp in (("P", True), ("cP", False)):
            items.append(("D2|%s|write|%s" % ("mutable-path-rejects" if exp else "const-path-accepts", pth.format(X="<mutable array_ref over a proxy-reference pointer>" if exp else "<const array_ref over a proxy-reference pointer>")),
                          ppre % (pth.format(X=root) + " = 9;"), exp))
    # ... and over a projection whose function returns a reference (element_transformed(&S::a)): the view held by const reference must not hand out modifiable elements
    tpre = """#include <boost/multi/array.hpp>
namespace multi = boost::multi;
struct S { int a; int b; };
void probe() { multi::array<S, 2> arr({3, 4}); auto&& T = arr.element_transformed(&S::a); auto const& cT = T; (void)cT;
	%s
}
"""
    for pth in TRANSFORMED_PATHS:
        for root, exp in (("T", True), ("cT", False)):
            items.append(("D2|%s|write|%s" % ("mutable-path-rejects" if exp else "const-path-accepts", pth.format(X="<element_transformed(&S::a) view>" if exp else "<const reference to an element_transformed(&S::a) view>")),
                          tpre % (pth.format(X=root) + " = 9;"), exp))
    viol, samples, vacuous = {}, [], []
    n_const = n_mut = 0
    with cf.ThreadPoolExecutor(max_workers=os.cpu_count() or 8) as ex:
        for key, ok, expect_ok, first, src in ex.map(_compile, items):
            if expect_ok:
                n_mut += 1
            else:
                n_const += 1
            stmt = src.strip().splitlines()[-2].strip()
            if not expect_ok and ok and key not in viol:   # a mutation through a const path compiles: violation
                viol[key] = dict(kind="compile-probe", statement=stmt, expected="ill-formed", observed="compiles", replay=None)
            if expect_ok and not ok:                        # control does not compile: the matching const probe is vacuous; reported, not a violation
                vacuous.append(stmt + "  // " + first[-120:])
            if len(samples) < 3 and not expect_ok:
                samples.append(dict(compile_probe=src.strip().splitlines()[-2].strip(), must="not compile", observed="compiles" if ok else "ill-formed"))
    return viol, dict(compile_probes=len(items), const_path_probes=n_const, mutable_control_probes=n_mut, controls_not_compiling=len(vacuous)), samples, vacuous


def c12_probes(tier):
    """composition of a projection with slicing must also compile in assertion-enabled builds"""
    pre = """#include <boost/multi/array.hpp>
namespace multi = boost::multi;
int probe() { multi::array<int, %(D)d> A(multi::extensions_t<%(D)d>{%(EXT)s}, 1); auto&& t = A.element_transformed([](int x) { return 2*x; }); %(STMT)s }
"""
    items = []
    for D in (1, 2, 3):
        ext = ", ".join(["multi::iextension{3}"] * D)
        idx = "[0]" * D
        for name, stmt in (("sliced", "auto&& s = t.sliced(0, 2); return s%s;" % idx), ("call-range", "auto&& s = t({0, 2}); return s%s;" % idx), ("strided", "auto&& s = t.strided(1); return s%s;" % idx),
                           ("rotated", "auto&& s = t.rotated(); return s%s;" % idx), ("dropped", "auto&& s = t.dropped(1); return s%s;" % idx)):
            items.append(("D%d|element_transformed(f).%s|does-not-compile-with-assertions-enabled" % (D, name), pre % dict(D=D, EXT=ext, STMT=stmt), True))
    viol = {}
    with cf.ThreadPoolExecutor(max_workers=os.cpu_count() or 8) as ex:
        for key, ok, expect_ok, first, src in ex.map(_compile, items):
            if not ok:
                viol[key] = dict(kind="compile-probe", statement=src.strip().splitlines()[-2].strip()[:300], expected="compiles", observed="ill-formed: " + first, replay=None)
    return viol, dict(compile_probes=len(items)), [], []


def c14_probes(tier):
    """the LAPACK adaptor headers named by the property must at least be includable"""
    items = []
    for hdr in ("lapack/syev.hpp", "lapack/getrf.hpp", "lapack.hpp", "lapack/potrf.hpp", "lapack/geqrf.hpp", "lapack/gesvd.hpp"):
        items.append(("header|adaptors/%s|does-not-compile" % hdr, "#include <boost/multi/adaptors/%s>\nint main() { return 0; }\n" % hdr, True))
    viol = {}
    with cf.ThreadPoolExecutor(max_workers=8) as ex:
        for key, ok, expect_ok, first, src in ex.map(_compile, items):
            if not ok:
                viol[key] = dict(kind="compile-probe", statement=src.splitlines()[0], expected="compiles", observed="ill-formed: " + first, replay=None)
    return viol, dict(compile_probes=len(items)), [], []
