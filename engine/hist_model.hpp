// E2: history explorer over a pool of two owning arrays (a, b) + an immutable source array `src` from which source views are taken.
// State = operation history (replayed on fresh objects); dedup key = reference-model state + implementation strides.
#pragma once
#include <boost/multi/array.hpp>

#include <deque>
#include <functional>
#include <memory>
#include <unordered_set>

#include "instr.hpp"
#include "mc_common.hpp"
#include "view_model.hpp"
#include "view_oracle.hpp"

namespace hm {
namespace multi = boost::multi;
using vm::idx;
using instr::W;

// ---------- reference model ----------
struct MArr {
	std::vector<idx> ext; std::vector<int> v; int alloc = 0;
	idx count() const { return static_cast<idx>(v.size()); }
};
struct MPool { MArr a, b; bool b_unspecified = false; };  // b_unspecified: b was the source of an element-wise move (valid but unspecified): not compared, state terminal

inline idx prod(std::vector<idx> const& e) { idx p = 1; for(auto x : e) { p *= x; } return p; }
inline MArr m_fresh(std::vector<idx> const& ext, int alloc, std::function<int(idx)> const& gen) {
	MArr m; m.ext = ext; m.alloc = alloc; idx n = prod(ext); m.v.resize(static_cast<std::size_t>(n));
	for(idx i = 0; i < n; ++i) { m.v[static_cast<std::size_t>(i)] = gen(i); }
	return m;
}
inline std::string ext_str(std::vector<idx> const& e) { std::string s = "{"; for(std::size_t i = 0; i < e.size(); ++i) { s += (i ? "," : ""); s += std::to_string(e[i]); } return s + "}"; }
inline std::string key_of(MArr const& m) { std::string s = ext_str(m.count() ? m.ext : std::vector<idx>{}) + "#" + std::to_string(m.alloc) + ":"; for(int x : m.v) { s += std::to_string(x) + ","; } return s; }
inline std::string key_of(MPool const& p) { return key_of(p.a) + "|" + key_of(p.b); }

// index-space intersection (zero-based extents): new array of extents `ne`, default value dflt, common part kept
inline MArr m_reextent(MArr const& old, std::vector<idx> const& ne, int dflt) {
	MArr n = m_fresh(ne, old.alloc, [&](idx) { return dflt; });
	if(old.v.empty() || n.v.empty()) { return n; }
	std::size_t D = ne.size(); std::vector<idx> t(D, 0);
	for(;;) {
		bool in = true; for(std::size_t j = 0; j < D; ++j) { if(t[j] >= old.ext[j]) { in = false; } }
		if(in) {
			idx on = 0, nn = 0; for(std::size_t j = 0; j < D; ++j) { on = on*old.ext[j] + t[j]; nn = nn*ne[j] + t[j]; }
			n.v[static_cast<std::size_t>(nn)] = old.v[static_cast<std::size_t>(on)];
		}
		int j = static_cast<int>(D) - 1;
		for(; j >= 0; --j) { auto u = static_cast<std::size_t>(j); if(++t[u] < ne[u]) { break; } t[u] = 0; }
		if(j < 0) { break; }
	}
	return n;
}

template<class P> auto rawp(P const& p) { if constexpr(std::is_pointer_v<P>) { return p; } else { return p.verif_raw(); } }   // harness-side raw view of a (possibly fancy) pointer

// ---------- reading the real array ----------
template<class A> void collect(A const& a, std::vector<int>& out) {
	if constexpr(A::rank_v == 0) { out.push_back(instr::val(static_cast<typename A::element_type const&>(a))); }
	else { for(auto i = a.extension().first(); i != a.extension().last(); ++i) { if constexpr(A::rank_v == 1) { out.push_back(instr::val(a[i])); } else { collect(a[i], out); } } }
}
template<class A> std::vector<idx> sizes_of(A const& a) {
	if constexpr(A::rank_v == 0) { return {}; } else { return vo::tup_vec_impl(a.sizes(), std::make_index_sequence<static_cast<std::size_t>(A::rank_v)>{}); }
}
template<class A> std::string strides_of(A const& a) {
	if constexpr(A::rank_v == 0) { return ""; } else { auto s = vo::tup_vec_impl(a.strides(), std::make_index_sequence<static_cast<std::size_t>(A::rank_v)>{}); std::string r; for(auto x : s) { r += std::to_string(x) + ","; } return r; }
}

// hidden state of an owning array (not part of its value): every stored layout field and what its base pointer is (null / a live block of the ledger / anything else, e.g. a
// released block).  Part of the search key: two pools with equal values but different hidden state are different states (they may have different futures).
template<class L> void layout_hidden_(L const& l, std::string& s) { if constexpr(L::dimensionality > 0) { s += std::to_string(l.offset()) + ":" + std::to_string(l.nelems()) + ","; layout_hidden_(l.sub(), s); } }
template<class A> std::string hidden_of(A const& a) {
	std::string s = strides_of(a) + "h";
	if constexpr(A::rank_v > 0) { layout_hidden_(a.layout(), s); }
	auto const* b = rawp(a.base());
	s += b == nullptr ? "N" : (instr::W.blocks.count(static_cast<void const*>(b)) ? "L" : "X");
	return s;
}

struct Cmp { bool ok = true; std::string oracle, detail; };
inline Cmp bad(std::string o, std::string d) { return Cmp{false, std::move(o), std::move(d)}; }

template<class A>
Cmp compare(A const& a, MArr const& m, char const* slot, bool check_alloc) {
	std::string S = slot;
	if(a.num_elements() != m.count()) { return bad("num_elements", S + ": num_elements()=" + std::to_string(a.num_elements()) + " model " + std::to_string(m.count())); }
	if(check_alloc && a.get_allocator().id != m.alloc) { return bad("allocator-id", S + ": get_allocator() is #" + std::to_string(a.get_allocator().id) + " model #" + std::to_string(m.alloc)); }
	if(m.count() == 0) {
		if constexpr(A::rank_v > 0) { if(a.size() != 0 || !a.is_empty()) { return bad("empty", S + ": empty array reports size " + std::to_string(a.size())); } }
		return {};
	}
	if(sizes_of(a) != m.ext) { return bad("extents", S + ": sizes " + ext_str(sizes_of(a)) + " model " + ext_str(m.ext)); }
	std::vector<int> got; collect(a, got);
	if(got != m.v) {
		std::string d = S + ": elements"; for(std::size_t i = 0; i < got.size() && i < 12; ++i) { d += " " + std::to_string(got[i]); } d += " model"; for(std::size_t i = 0; i < m.v.size() && i < 12; ++i) { d += " " + std::to_string(m.v[i]); }
		return bad("value", d);
	}
	return {};
}

// ---------- operations ----------
enum Flags : unsigned {
	F_NONE = 0,
	F_NO_ELEM_OPS = 1,    // must not copy/move/assign/construct any element and must not allocate (move of resizable arrays, swap)
	F_SRC_EMPTY_B = 2,    // afterwards slot b must be empty (moved-from)
	F_SRC_EMPTY_A = 4,
	F_SAME_EXT_NO_ALLOC = 8,  // if target extents equal source extents beforehand: no allocation
	F_NEVER_ALLOC = 16,
	F_SELF = 32,          // data_elements() of a unchanged
	F_KEEP_DATA_IF_SAME = 64,   // reextent to the current extents keeps storage
	F_ALLOC_UNSPEC = 128,       // the property does not say which allocator a has afterwards (only provenance is checked); the model adopts the observed id
};

template<class Pool>
struct OpDef {
	std::string name;   // with arguments, for traces
	std::string cls;    // class for violation keys (no shape arguments)
	std::string prop;   // C04 or C06
	unsigned flags = 0;
	std::function<bool(MPool&)> model;            // false: not enabled in this state
	std::function<void(Pool&)> real;
	std::function<std::string(MPool const&)> cls_fn;  // optional state-dependent class refinement
};


// ---------- isolated execution: run a batch of transitions in a forked child; a crash costs one re-fork, not the search ----------
struct Outcome { bool ok = true; bool crashed = false; std::string oracle, detail, strides; int alloc_a = 0, alloc_b = 0; long nfault = 0; };

inline std::string enc(std::string s) { for(auto& c : s) { if(c == '\t' || c == '\n') { c = ' '; } } return s; }

// run(i) is executed in a child for every i in [0,n); results come back in order.  A child that dies at item i yields
// Outcome{crashed, oracle="crash:<class>", detail=<first stderr line of interest>} for i and the batch resumes at i+1.
template<class Run>
std::vector<Outcome> isolated(int n, Run&& run) {
	std::vector<Outcome> out(static_cast<std::size_t>(n));
	int next = 0;
	while(next < n) {
		int pfd[2]; if(pipe(pfd) != 0) { std::perror("pipe"); std::exit(4); }
		int err = memfd_create("hm_err", 0);
		std::fflush(stdout); std::fflush(stderr);
		pid_t pid = fork();
		if(pid == 0) {
			close(pfd[0]); dup2(err, 2);
			FILE* f = fdopen(pfd[1], "w");
			for(int i = next; i < n; ++i) {
				std::fprintf(f, "B\t%d\n", i); std::fflush(f);
				Outcome o = run(i);
				std::fprintf(f, "R\t%d\t%d\t%s\t%s\t%s\t%d\t%d\t%ld\n", i, o.ok ? 1 : 0, enc(o.oracle).c_str(), enc(o.detail).c_str(), enc(o.strides).c_str(), o.alloc_a, o.alloc_b, o.nfault); std::fflush(f);
			}
			std::fclose(f); _exit(0);
		}
		close(pfd[1]);
		std::string buf; { char tmp[65536]; for(;;) { auto r = read(pfd[0], tmp, sizeof tmp); if(r <= 0) { break; } buf.append(tmp, static_cast<std::size_t>(r)); } }
		close(pfd[0]);
		int st = 0; waitpid(pid, &st, 0);
		int begun = -1, last_done = next - 1;
		std::size_t pos = 0;
		while(pos < buf.size()) {
			auto e = buf.find('\n', pos); if(e == std::string::npos) { break; }
			std::string line = buf.substr(pos, e - pos); pos = e + 1;
			std::vector<std::string> f; { std::size_t a = 0; for(;;) { auto t = line.find('\t', a); if(t == std::string::npos) { f.push_back(line.substr(a)); break; } f.push_back(line.substr(a, t - a)); a = t + 1; } }
			if(f[0] == "B" && f.size() >= 2) { begun = std::atoi(f[1].c_str()); }
			if(f[0] == "R" && f.size() >= 6) { int i = std::atoi(f[1].c_str()); auto& o = out[static_cast<std::size_t>(i)]; o.ok = f[2] == "1"; o.oracle = f[3]; o.detail = f[4]; o.strides = f[5]; if(f.size() >= 8) { o.alloc_a = std::atoi(f[6].c_str()); o.alloc_b = std::atoi(f[7].c_str()); } if(f.size() >= 9) { o.nfault = std::atol(f[8].c_str()); } last_done = i; }
		}
		if(WIFEXITED(st) && WEXITSTATUS(st) == 0 && last_done == n - 1) { close(err); break; }
		// the child died while running item `begun`
		std::string se = mc::read_fd_all(err); close(err);
		int ci = begun > last_done ? begun : last_done + 1;
		if(ci >= n) { break; }
		auto& o = out[static_cast<std::size_t>(ci)];
		o.ok = false; o.crashed = true; o.oracle = "crash:" + mc::crash_class(se);
		o.detail = (WIFSIGNALED(st) ? "signal " + std::to_string(WTERMSIG(st)) : "exit " + std::to_string(WEXITSTATUS(st))) + " :: " + mc::crash_digest(se);
		next = ci + 1;
	}
	return out;
}

}  // namespace hm
