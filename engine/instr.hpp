// Instrumentation for E2: live-object registry, allocation ledger, operation counters, single-fault injector.
#pragma once
#include <cstddef>
#include <cstring>
#include <map>
#include <memory>
#include <new>
#include <set>
#include <string>
#include <vector>
#ifdef HM_FANCY
#include "fancy_ptr.hpp"
#endif

namespace instr {

struct Injected { int what; };  // the injected exception (not derived from std::exception on purpose)

struct Block { std::size_t n; int id; std::size_t bytes; };

struct World {
	std::map<void const*, Block> blocks;
	std::set<void const*> alive;
	long nalloc = 0, ndealloc = 0, ncopy = 0, nmove = 0, nassign = 0, nmassign = 0, ndefault = 0, nvalue = 0, ndtor = 0;
	std::vector<std::string> errs;
	// fault injector: the k-th "opportunity" (allocation, element construction, element assignment) throws
	long fault_at = -1, fault_count = 0; int fault_kind_hit = -1;
	bool count_faults = true;
	// allocator address policy (an environment answer the harness owns): false = every allocation gets an address never seen before in this history (blocks are kept
	// by the sanitizer's quarantine); true = a released block is handed out again, most recently released first, to the next request of the same byte size
	bool recycle = false;
	std::vector<std::pair<std::size_t, void*>> free_order;   // released blocks, oldest first
	void drop_freelist() { for(auto& kv : free_order) { ::operator delete(kv.second); } free_order.clear(); }
	void* reuse(std::size_t bytes) { for(std::size_t i = free_order.size(); i-- > 0;) { if(free_order[i].first == bytes) { void* p = free_order[i].second; free_order.erase(free_order.begin() + static_cast<std::ptrdiff_t>(i)); return p; } } return nullptr; }
	void err(std::string s) { if(errs.size() < 20) { errs.push_back(std::move(s)); } }
	void reset() { blocks.clear(); alive.clear(); nalloc = ndealloc = ncopy = nmove = nassign = nmassign = ndefault = nvalue = ndtor = 0; errs.clear(); fault_at = -1; fault_count = 0; fault_kind_hit = -1; drop_freelist(); }
	// kind: 0 alloc, 1 elem-ctor, 2 elem-assign
	void opportunity(int kind) {
		if(!count_faults) { return; }
		if(fault_count++ == fault_at) { fault_kind_hit = kind; throw Injected{kind}; }
	}
};
inline World W;

constexpr unsigned char PREFILL_BYTE = 0xA5;
constexpr int PREFILL_INT = static_cast<int>(0xA5A5A5A5U);

// ---- tracked element: every special member updates the registry ----
struct E {
	int v;
	void reg() { if(!W.alive.insert(this).second) { W.err("construct-over-live"); } }
	void chk(char const* what) const { if(!W.alive.count(this)) { W.err(std::string(what) + "-of-dead-object"); } }
	E() : v(0) { W.opportunity(1); ++W.nvalue; reg(); }
	E(int x) : v(x) { W.opportunity(1); reg(); }  // NOLINT implicit: "convertible element type"
	E(E const& o) : v(o.v) { o.chk("copy"); W.opportunity(1); ++W.ncopy; reg(); }
#ifdef INSTR_THROWING_MOVE
	E(E&& o) : v(o.v) { o.chk("move"); W.opportunity(1); ++W.nmove; o.v = -1; reg(); }
	E& operator=(E&& o) { chk("assign-to"); o.chk("move-assign-from"); W.opportunity(2); ++W.nmassign; v = o.v; o.v = -1; return *this; }
#else
	E(E&& o) noexcept : v(o.v) { o.chk("move"); ++W.nmove; o.v = -1; reg(); }
	E& operator=(E&& o) noexcept { chk("assign-to"); o.chk("move-assign-from"); ++W.nmassign; v = o.v; o.v = -1; return *this; }
#endif
	E& operator=(E const& o) { chk("assign-to"); o.chk("assign-from"); W.opportunity(2); ++W.nassign; v = o.v; return *this; }
	~E() { ++W.ndtor; if(!W.alive.erase(this)) { W.err("destroy-of-dead-object"); } }
	friend bool operator==(E const& a, E const& b) { return a.v == b.v; }
	friend bool operator!=(E const& a, E const& b) { return a.v != b.v; }
	friend bool operator<(E const& a, E const& b) { return a.v < b.v; }
	template<class Archive> void serialize(Archive& ar, unsigned /*version*/) { chk("serialize"); ar & v; }   // Boost.Serialization (C08/C17 load path)
};
// element type with a NON-trivial default constructor but TRIVIAL destructor/copy (e.g. struct { int v = 0; }, std::pair<int,int>): value-initialisation is required, lifetime is not tracked
struct Q {
	int v;
	static inline long ndefault = 0;   // default constructions (the type stays trivially copyable and trivially destructible: copies and destructions cannot be counted)
	Q() : v(0) { ++ndefault; }
	Q(int x) : v(x) {}  // NOLINT implicit
	friend bool operator==(Q const& a, Q const& b) { return a.v == b.v; }
	friend bool operator!=(Q const& a, Q const& b) { return a.v != b.v; }
	friend bool operator<(Q const& a, Q const& b) { return a.v < b.v; }
};
inline int val(Q const& q) { return q.v; }
inline int val(E const& e) { e.chk("read"); return e.v; }
inline int val(int e) { return e; }
inline int val(short e) { return e; }

// ---- ledger allocator ----
struct DefaultTraits {
	static constexpr bool pocca = false, pocma = false, pocs = false, always_equal = false, soccc_fresh = false;
};
template<bool CA, bool MA, bool S, bool SOCCC = false>
struct Traits { static constexpr bool pocca = CA, pocma = MA, pocs = S, always_equal = false, soccc_fresh = SOCCC; };

template<class T, class Tr = DefaultTraits>
struct LA {
	using value_type = T;
	using propagate_on_container_copy_assignment = std::integral_constant<bool, Tr::pocca>;
	using propagate_on_container_move_assignment = std::integral_constant<bool, Tr::pocma>;
	using propagate_on_container_swap            = std::integral_constant<bool, Tr::pocs>;
	using is_always_equal                        = std::integral_constant<bool, Tr::always_equal>;
	template<class U> struct rebind { using other = LA<U, Tr>; };
#ifdef HM_FANCY   // C11: the allocator hands out a user-defined pointer type with provenance
	using pointer = fancy::ptr<T>;
	using const_pointer = fancy::ptr<T const>;
	using void_pointer = fancy::ptr<void>;
	using difference_type = std::ptrdiff_t;
	using size_type = std::size_t;
#else
	using pointer = T*;
#endif
	int id = 0;
	LA() = default;
	explicit LA(int i) : id(i) {}
	template<class U> LA(LA<U, Tr> const& o) : id(o.id) {}  // NOLINT
	static T* raw_of(T* p) { return p; }
#ifdef HM_FANCY
	static T* raw_of(fancy::ptr<T> const& p) { return p.verif_raw(); }
	static pointer wrap(T* p, std::size_t n) { return fancy::make(p, static_cast<std::ptrdiff_t>(n)); }
#else
	static pointer wrap(T* p, std::size_t /*n*/) { return p; }
#endif
	pointer allocate(std::size_t n) {
		W.opportunity(0);
		++W.nalloc;
		std::size_t bytes = n*sizeof(T);
		void* p = nullptr;
		if(W.recycle) { p = W.reuse(bytes); }
		if(p == nullptr) { p = ::operator new(bytes ? bytes : 1); }
		std::memset(p, PREFILL_BYTE, bytes);
		W.blocks[p] = Block{n, id, bytes};
		return wrap(static_cast<T*>(p), n);
	}
	template<class Hint> pointer allocate(std::size_t n, Hint const& /*hint*/) { return allocate(n); }
	void deallocate(pointer fp, std::size_t n) {
		T* p = raw_of(fp);
		++W.ndealloc;
		auto it = W.blocks.find(p);
		if(it == W.blocks.end()) { W.err("deallocate-unknown-or-freed-block"); return; }
		if(it->second.n != n) { W.err("deallocate-size-mismatch(requested " + std::to_string(it->second.n) + ", returned " + std::to_string(n) + ")"); }
		if(it->second.id != id) { W.err("deallocate-through-unequal-allocator(block of #" + std::to_string(it->second.id) + " released by #" + std::to_string(id) + ")"); }
		std::size_t const bytes = it->second.bytes;
		W.blocks.erase(it);
		if(W.recycle) { std::memset(p, 0xDD, bytes); W.free_order.emplace_back(bytes, p); } else { ::operator delete(p); }
	}
	LA select_on_container_copy_construction() const { return Tr::soccc_fresh ? LA(id + 100) : *this; }
	friend bool operator==(LA const& a, LA const& b) { return a.id == b.id; }
	friend bool operator!=(LA const& a, LA const& b) { return a.id != b.id; }
};

}  // namespace instr
