"""Core definitions shared by the driver and the check registry."""
import hashlib
import os
import subprocess

HERE = os.path.dirname(os.path.abspath(__file__))
REPO = os.environ.get("VERIF_REPO", "/repo")
INC = os.path.join(REPO, "include")
BUILD = os.path.join(HERE, "build")

SAN = ["-O0", "-g1", "-fsanitize=address,undefined", "-fno-sanitize-recover=undefined", "-fno-omit-frame-pointer"]
CONFIGS = {
    # assertions ON + ASan/UBSan: main configuration
    "san": dict(flags=SAN),
    # model is the sole oracle (library assertions off), sanitizers on
    "san-nd": dict(flags=SAN + ["-DNDEBUG"]),
    "san-clang": dict(flags=SAN, cxx="clang++"),
    # the baseline's own flags
    "rel": dict(flags=["-O2", "-DNDEBUG"]),
    "dbg": dict(flags=["-O1"]),
    "noassert": dict(flags=["-O1", "-DBOOST_MULTI_ASSERT_DISABLE"]),
}


def sh(cmd, **kw):
    return subprocess.run(cmd, shell=isinstance(cmd, str), stdout=subprocess.PIPE, stderr=subprocess.PIPE, text=True, **kw)


_tree_hash = None


def tree_hash():
    """hash of everything a harness build depends on: the library headers and the engine headers"""
    global _tree_hash
    if _tree_hash is None:
        h = hashlib.sha1()
        for root in (os.path.join(INC, "boost", "multi"), os.path.join(HERE, "engine")):
            for d, dirs, files in sorted(os.walk(root)):
                dirs.sort()
                for f in sorted(files):
                    p = os.path.join(d, f)
                    h.update(p.encode())
                    with open(p, "rb") as fh:
                        h.update(fh.read())
        _tree_hash = h.hexdigest()
    return _tree_hash


class Job:
    """one harness binary + arguments"""

    def __init__(self, harness, cfg="san", defs=(), args=(), name=None, libs=(), cxx=None, env=None, compile_only=False, expect_compile_fail=False, weight=1):
        self.harness, self.cfg, self.defs, self.args = harness, cfg, list(defs), list(args)
        self.libs = list(libs)
        self.cxx = cxx
        self.env = env or {}
        self.name = name or (harness + ":" + cfg + ":" + ",".join(defs) + ":" + " ".join(args))
        self.weight = weight

    def build_spec(self):
        c = CONFIGS[self.cfg]
        cxx = self.cxx or c.get("cxx", "g++")
        flags = ["-std=c++17", "-I" + INC] + c["flags"] + self.defs
        return cxx, flags, self.libs + c.get("libs", [])

    def bin_path(self):
        cxx, flags, libs = self.build_spec()
        src = os.path.join(HERE, "harness", self.harness + ".cpp")
        h = hashlib.sha1()
        h.update(tree_hash().encode())
        h.update(open(src, "rb").read())
        h.update(" ".join([cxx] + flags + libs).encode())
        return os.path.join(BUILD, h.hexdigest()[:20], self.harness)


