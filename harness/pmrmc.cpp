// C10 (pmr clause) — arrays over std::pmr::polymorphic_allocator on DIFFERENT memory resources: history BFS over a pool of two pmr arrays;
// every block must be returned to the resource that produced it, moving between arrays on unequal resources never hands a block over,
// get_allocator().resource() follows the container requirements (polymorphic_allocator: no propagation; copy construction -> default resource).
#include <boost/multi/array.hpp>

#include <memory_resource>

#include "../engine/hist_model.hpp"

using namespace hm;
constexpr int D = 2;
using T = int;
using Arr = multi::array<T, D, std::pmr::polymorphic_allocator<T>>;

struct Res : std::pmr::memory_resource {
	int id; std::map<void*, std::size_t> live; std::vector<std::string>* errs; long nalloc = 0;
	Res(int i, std::vector<std::string>* e) : id(i), errs(e) {}
	void* do_allocate(std::size_t bytes, std::size_t align) override { ++nalloc; void* p = ::operator new(bytes ? bytes : 1, std::align_val_t(align)); live[p] = bytes; return p; }
	void do_deallocate(void* p, std::size_t bytes, std::size_t align) override {
		auto it = live.find(p);
		if(it == live.end()) { if(errs->size() < 8) { errs->push_back("resource #" + std::to_string(id) + " asked to release a block it did not produce"); } return; }
		if(it->second != bytes) { if(errs->size() < 8) { errs->push_back("resource #" + std::to_string(id) + ": block released with a different size"); } }
		live.erase(it); ::operator delete(p, std::align_val_t(align));
	}
	bool do_is_equal(std::pmr::memory_resource const& o) const noexcept override { return this == &o; }
};

struct World { std::vector<std::string> errs; Res r0{0, &errs}, r1{1, &errs}, r2{2, &errs}; Res* res(int i) { return i == 0 ? &r0 : i == 1 ? &r1 : &r2; } int id_of(std::pmr::memory_resource* p) { return p == &r0 ? 0 : p == &r1 ? 1 : p == &r2 ? 2 : -1; } };
struct Pool { std::unique_ptr<Arr> a, b; };

struct PM { MArr a, b; };   // MArr.alloc = resource id
static std::string key(PM const& m) { return key_of(m.a) + "|" + key_of(m.b); }
struct PO { std::string name; std::function<bool(PM&)> model; std::function<void(Pool&, World&)> real; };
static std::vector<PO> g_ops;
static auto X(std::vector<idx> const& s) { return vo::make_extensions<D>(s); }

static void build() {
	std::vector<std::vector<idx>> shapes = {{0, 0}, {1, 2}, {2, 2}, {2, 3}};
	auto add = [](PO o) { g_ops.push_back(std::move(o)); };
	for(auto const& s : shapes) {
		std::string ss = ext_str(s);
		add({"a=Arr(" + ss + ",7,&R1)", [s](PM& m) { m.a = m_fresh(s, 1, [](idx) { return 7; }); return true; }, [s](Pool& p, World& w) { p.a = std::make_unique<Arr>(X(s), 7, &w.r1); }});
		add({"b=Arr(" + ss + ",8,&R2)", [s](PM& m) { m.b = m_fresh(s, 2, [](idx) { return 8; }); return true; }, [s](Pool& p, World& w) { p.b = std::make_unique<Arr>(X(s), 8, &w.r2); }});
		add({"b=Arr(" + ss + ",6,&R1)", [s](PM& m) { m.b = m_fresh(s, 1, [](idx) { return 6; }); return true; }, [s](Pool& p, World& w) { p.b = std::make_unique<Arr>(X(s), 6, &w.r1); }});
		add({"a.reextent(" + ss + ",9)", [s](PM& m) { m.a = m_reextent(m.a, s, 9); return true; }, [s](Pool& p, World&) { p.a->reextent(X(s), 9); }});
	}
	// polymorphic_allocator never propagates: assignments keep the target's resource
	add({"a=b", [](PM& m) { int r = m.a.alloc; m.a = m.b; m.a.alloc = r; return true; }, [](Pool& p, World&) { *p.a = *p.b; }});
	add({"b=a", [](PM& m) { int r = m.b.alloc; m.b = m.a; m.b.alloc = r; return true; }, [](Pool& p, World&) { *p.b = *p.a; }});
	add({"a=std::move(b)", [](PM& m) { int r = m.a.alloc; bool same = m.a.alloc == m.b.alloc; m.a.ext = m.b.ext; m.a.v = m.b.v; m.a.alloc = r; if(same) { m.b.v.clear(); } else { m.b.v.clear(); m.b.ext.assign(1, -1); } return true; }, [](Pool& p, World&) { *p.a = std::move(*p.b); }});
	add({"swap(a,b) [equal resources only]", [](PM& m) { if(m.a.alloc != m.b.alloc) { return false; } std::swap(m.a.ext, m.b.ext); std::swap(m.a.v, m.b.v); return true; }, [](Pool& p, World&) { using std::swap; swap(*p.a, *p.b); }});
	add({"a=Arr(b) [copy construction: default resource]", [](PM& m) { m.a = m.b; m.a.alloc = 0; return true; }, [](Pool& p, World&) { p.a = std::make_unique<Arr>(*p.b); }});
	add({"a=Arr(b,&R1)", [](PM& m) { m.a = m.b; m.a.alloc = 1; return true; }, [](Pool& p, World& w) { p.a = std::make_unique<Arr>(*p.b, &w.r1); }});
	add({"a=Arr(std::move(b),&R1)", [](PM& m) { bool same = m.b.alloc == 1; m.a = m.b; m.a.alloc = 1; m.b.v.clear(); if(!same) { m.b.ext.assign(1, -1); } return true; }, [](Pool& p, World& w) { auto t = std::make_unique<Arr>(std::move(*p.b), &w.r1); p.a = std::move(t); }});
	add({"a=Arr(std::move(b))", [](PM& m) { m.a = m.b; m.b.v.clear(); return true; }, [](Pool& p, World&) { auto t = std::make_unique<Arr>(std::move(*p.b)); p.a = std::move(t); }});
	add({"a.clear()", [](PM& m) { m.a.v.clear(); return true; }, [](Pool& p, World&) { p.a->clear(); }});
	add({"b.front-element=5", [](PM& m) { if(m.b.v.empty() || (m.b.ext.size() == 1 && m.b.ext[0] == -1)) { return false; } m.b.v.front() = 5; return true; }, [](Pool& p, World&) { (*p.b)[0][0] = 5; }});
}

// the source of an element-wise move (unequal resources) is valid but unspecified: marked by ext = {-1}; not compared and not continued
static bool unspecified(MArr const& m) { return m.ext.size() == 1 && m.ext[0] == -1; }

static Outcome run(std::vector<int> const& h, int op, PM const& after) {
	Outcome out;
	World w; std::pmr::memory_resource* old = std::pmr::set_default_resource(&w.r0);
	{
		Pool p; p.a = std::make_unique<Arr>(&w.r1); p.b = std::make_unique<Arr>(&w.r2);
		for(int x : h) { g_ops[static_cast<std::size_t>(x)].real(p, w); }
		g_ops[static_cast<std::size_t>(op)].real(p, w);
		auto fail = [&](std::string o, std::string d) { if(out.ok) { out.ok = false; out.oracle = std::move(o); out.detail = std::move(d); } };
		if(!w.errs.empty()) { fail("released-through-wrong-resource", w.errs[0]); }
		auto chk = [&](Arr const& r, MArr const& m, char const* nm) {
			if(unspecified(m)) { return; }
			if(r.num_elements() != m.count()) { fail("num_elements", std::string(nm) + ": " + std::to_string(r.num_elements()) + " model " + std::to_string(m.count())); return; }
			int rid = w.id_of(r.get_allocator().resource());
			if(rid != m.alloc) { fail("resource-of-get_allocator", std::string(nm) + " reports resource #" + std::to_string(rid) + ", container requirements say #" + std::to_string(m.alloc)); }
			if(m.count() == 0) { return; }
			if(sizes_of(r) != m.ext) { fail("extents", nm); return; }
			std::vector<int> got; collect(r, got); if(got != m.v) { fail("value", nm); }
			if(rid >= 0 && !w.res(rid)->live.count(const_cast<int*>(r.data_elements()))) { fail("block-provenance", std::string(nm) + " owns a block that its own resource #" + std::to_string(rid) + " did not produce"); }
		};
		chk(*p.a, after.a, "a"); chk(*p.b, after.b, "b");
	}
	if(out.ok) {
		if(!w.errs.empty()) { out.ok = false; out.oracle = "released-through-wrong-resource"; out.detail = w.errs[0]; }
		else if(!w.r0.live.empty() || !w.r1.live.empty() || !w.r2.live.empty()) { out.ok = false; out.oracle = "leak-block"; out.detail = "blocks outstanding after the pool died"; }
	}
	std::pmr::set_default_resource(old);
	return out;
}

int main(int argc, char** argv) {
	mc::Args args(argc, argv);
	int maxdepth = static_cast<int>(args.geti("depth", args.get("tier", "quick") == "thorough" ? 4 : 3));
	build();
	auto hs = [&](std::vector<int> const& h) { std::string s; for(std::size_t i = 0; i < h.size(); ++i) { s += (i ? " ; " : "") + g_ops[static_cast<std::size_t>(h[i])].name; } return s; };
	auto init = [] { PM m; m.a.ext = {0, 0}; m.a.alloc = 1; m.b.ext = {0, 0}; m.b.alloc = 2; return m; };
	if(args.has("replay")) { std::vector<int> h; std::string cur; for(char c : args.get("replay") + ",") { if(c == ',') { if(!cur.empty()) { h.push_back(std::atoi(cur.c_str())); } cur.clear(); } else { cur += c; } }
		int op = h.back(); h.pop_back(); PM m = init(); for(int x : h) { g_ops[static_cast<std::size_t>(x)].model(m); } g_ops[static_cast<std::size_t>(op)].model(m);
		std::printf("history: %s ; THEN %s\n", hs(h).c_str(), g_ops[static_cast<std::size_t>(op)].name.c_str()); Outcome o = run(h, op, m); std::printf("REPLAY %s %s %s\n", o.ok ? "OK" : "VIOLATION", o.oracle.c_str(), o.detail.c_str()); return o.ok ? 0 : 1; }
	struct St { std::vector<int> h; PM m; };
	std::deque<St> fr; std::unordered_set<std::string> seen; fr.push_back(St{{}, init()}); seen.insert(key(init()));
	long states = 1, transitions = 0, changed = 0;
	while(!fr.empty()) {
		St st = std::move(fr.front()); fr.pop_front();
		if(static_cast<int>(st.h.size()) >= maxdepth) { continue; }
		std::vector<std::pair<int, PM>> trs;
		for(int i = 0; i < static_cast<int>(g_ops.size()); ++i) { PM m2 = st.m; if(g_ops[static_cast<std::size_t>(i)].model(m2)) { trs.push_back({i, m2}); } }
		auto outs = isolated(static_cast<int>(trs.size()), [&](int i) { return run(st.h, trs[static_cast<std::size_t>(i)].first, trs[static_cast<std::size_t>(i)].second); });
		for(std::size_t i = 0; i < trs.size(); ++i) {
			++transitions; if(key(trs[i].second) != key(st.m)) { ++changed; }
			auto h2 = st.h; h2.push_back(trs[i].first);
			if(!outs[i].ok) {
				std::string ids; for(std::size_t q = 0; q < h2.size(); ++q) { ids += (q ? "," : "") + std::to_string(h2[q]); }
				std::string nm = g_ops[static_cast<std::size_t>(trs[i].first)].name; nm = nm.substr(0, nm.find('{'));
				mc::R.violation("pmr|D2|" + nm + "|" + outs[i].oracle, mc::J().s("harness", "pmrmc").s("replay", ids).s("history", hs(st.h)).s("op", g_ops[static_cast<std::size_t>(trs[i].first)].name).s("oracle", outs[i].oracle).s("detail", outs[i].detail).str());
				continue;
			}
			if(unspecified(trs[i].second.a) || unspecified(trs[i].second.b)) { continue; }
			if(seen.insert(key(trs[i].second)).second) { ++states; if(mc::R.samples.size() < 2 && h2.size() == 3 && states % 29 == 0) { mc::R.sample(mc::J().s("config", "pmrmc").s("history", hs(h2)).s("model_state", key(trs[i].second)).str()); } fr.push_back(St{h2, trs[i].second}); }
		}
	}
	mc::R.add("states", states); mc::R.add("transitions", transitions); mc::R.add("distinct_nontrivial", changed);
	mc::R.note("pmrmc: polymorphic_allocator over three counting memory resources (R0 = default resource), alphabet=" + std::to_string(g_ops.size()) + " completed_depth=" + std::to_string(maxdepth) + " states=" + std::to_string(states) + " transitions=" + std::to_string(transitions));
	mc::R.emit(stdout);
	return 0;
}
