// C15 — FFTW adaptor: fftw::dft over any subset of dimensions of strided views equals the direct DFT.
//
// Complete grid (no sampling):  D = 1..3 (thorough: 1..4)  x  every extent vector over {1..4}^D (thorough {1..5}^D for D<=3, {1..3}^4 for D=4)
//   x ALL 2^D `which` masks  x  both signs
//   x { out-of-place: every ORDERED pair (input layout, output layout) ; in-place overload: every layout }
//   layouts (D>=2): contiguous array_ref, rotated, unrotated, transposed, padded sub-block, strided-by-2 block, sub-block of rotated
//   layouts (D==1): contiguous, padded sub-block, strided-by-2 block (rotations/transposition are the identity in 1-D)
// Inputs per configuration: the COMPLETE BASIS  delta_k and i*delta_k for every position k of the input view (2N calls; the DFT is
//   linear, so agreement on the basis decides equality of the two maps), then one dense small-integer array through the
//   dft_forward/dft_backward helpers, followed by the opposite helper (forward o backward = N_transformed * identity).
// Oracle: direct evaluation of  y[k] = sum_j x[j] * prod_{d in which} exp(sign*2*pi*i*j_d*k_d/n_d)  over the LOGICAL contents read through
//   plain indexing.  When every transformed extent is 1, 2 or 4 every twiddle is exactly 0/+-1/+-i and the comparison is `==`;
//   otherwise |got-ref| <= 64*eps*N*sum|x|  (N = number of elements of the view).
// Also: a distinct input store is bit-identical afterwards; every element of the output store that is not an element of the output
//   view (guards, sub-block padding, skipped elements of the strided block) still holds its sentinel; an output left untouched is told apart.
// Outcomes: correct | rejected (exception, or SIGABRT with an assertion located in include/boost/multi) | violation (anything else).
// Every group of configurations runs in a forked child of the assertion-enabled ASan/UBSan build; a dying child is classified and the
// group is resumed after the configuration that died.
#include <boost/multi/array.hpp>

#include <boost/multi/adaptors/fftw.hpp>

#include <array>
#include <cmath>
#include <complex>
#include <cstring>
#include <limits>
#include <string>
#include <vector>

#include "../engine/mc_common.hpp"

namespace multi = boost::multi;
namespace fftw  = multi::fftw;
using C   = std::complex<double>;
using idx = std::ptrdiff_t;

// ------------------------------------------------------------------------------------------------ configuration
enum Lay { L_CONTIG, L_ROT, L_UNROT, L_TRANSP, L_SUB, L_STRIDED, L_SUBROT, L_STEP1, L_STEPLAST, NLAY };
static char const* const lay_name[]  = {"contiguous", "rotated", "unrotated", "transposed", "padded-sub-block", "strided-by-2-block", "sub-block-of-rotated", "every-other-in-dimension-1-of-odd-parent", "every-other-in-last-dimension-of-odd-parent"};
static char const* const lay_short[] = {"contig", "rot", "unrot", "transp", "sub", "strided", "subrot", "step1", "steplast"};
static char const* const lay_class[] = {"contiguous", "permuted", "permuted", "permuted", "padded", "padded", "permuted-padded", "padded", "padded"};

enum Mode { M_OOP, M_INPLACE };

struct Cfg {
	int D = 1; std::vector<idx> ext; unsigned mask = 0; int sign = -1; int lin = 0, lout = 0; int mode = M_OOP; bool want_sample = false;
};

static std::string ext_str(std::vector<idx> const& e) { std::string s; for(std::size_t i = 0; i < e.size(); ++i) { s += (i ? "x" : ""); s += std::to_string(e[i]); } return s; }
static std::string mask_str(int D, unsigned m) { std::string s; for(int d = 0; d < D; ++d) { s += ((m >> d) & 1U) ? 'T' : 'F'; } return s; }
static std::string tup_str(idx const* t, int D) { std::string s = "("; for(int d = 0; d < D; ++d) { s += (d ? "," : ""); s += std::to_string(t[d]); } return s + ")"; }
static std::string c_str(C const& z) { char b[96]; std::snprintf(b, sizeof b, "(%.17g,%.17g)", z.real(), z.imag()); return b; }

// replay string:  D:e0xe1x..:TF..:fwd|bwd:<in layout>:<out layout>:oop|inplace
static std::string replay_of(Cfg const& c) {
	return std::to_string(c.D) + ":" + ext_str(c.ext) + ":" + mask_str(c.D, c.mask) + ":" + (c.sign < 0 ? "fwd" : "bwd") + ":" + lay_short[c.lin] + ":" + lay_short[c.lout] + ":" + (c.mode == M_OOP ? "oop" : "inplace");
}
static bool parse_replay(std::string const& s, Cfg& c) {
	std::vector<std::string> f; std::string cur; for(char ch : s) { if(ch == ':') { f.push_back(cur); cur.clear(); } else { cur += ch; } } f.push_back(cur);
	if(f.size() != 7) { return false; }
	c.D = std::atoi(f[0].c_str()); if(c.D < 1 || c.D > 4) { return false; }
	c.ext.clear(); { std::string t; for(char ch : f[1] + "x") { if(ch == 'x') { c.ext.push_back(std::atol(t.c_str())); t.clear(); } else { t += ch; } } }
	if(static_cast<int>(c.ext.size()) != c.D) { return false; } for(auto e : c.ext) { if(e < 1 || e > 8) { return false; } }
	if(static_cast<int>(f[2].size()) != c.D) { return false; } c.mask = 0; for(int d = 0; d < c.D; ++d) { if(f[2][static_cast<std::size_t>(d)] == 'T') { c.mask |= 1U << d; } }
	if(f[3] == "fwd") { c.sign = -1; } else if(f[3] == "bwd") { c.sign = +1; } else { return false; }
	auto lay = [](std::string const& n) { for(int l = 0; l < NLAY; ++l) { if(n == lay_short[l]) { return l; } } return -1; };
	c.lin = lay(f[4]); c.lout = lay(f[5]); if(c.lin < 0 || c.lout < 0) { return false; }
	if(f[6] == "oop") { c.mode = M_OOP; } else if(f[6] == "inplace") { c.mode = M_INPLACE; } else { return false; }
	return true;
}

static char const* form_of(Cfg const& c) { return c.mode == M_OOP ? "dft(which,in,out,sign)" : "dft(which,io,sign)"; }
static bool identity_transform(Cfg const& c) { for(int d = 0; d < c.D; ++d) { if(((c.mask >> d) & 1U) && c.ext[static_cast<std::size_t>(d)] >= 2) { return false; } } return true; }

// violation key = CLASS:  form | element type | layout class of each operand | which class | rank and size class | sign | symptom
static std::string key_of(Cfg const& c, std::string const& symptom) {
	unsigned full = (1U << c.D) - 1U;
	bool has1 = false; for(auto e : c.ext) { if(e == 1) { has1 = true; } }
	std::string k = std::string(form_of(c)) + "|complex<double>|";
	k += c.mode == M_OOP ? (std::string("in:") + lay_class[c.lin] + ",out:" + lay_class[c.lout]) : (std::string("io:") + lay_class[c.lin]);
	k += std::string("|which:") + (c.mask == 0 ? "none" : c.mask == full ? "all" : "partial");
	k += "|D" + std::to_string(c.D) + (has1 ? ":some-extent-1" : ":all-extents-2+");
	k += std::string("|") + (c.mask == 0 ? "sign:any" : c.sign < 0 ? "sign:forward" : "sign:backward");
	return k + "|" + symptom;
}
static void describe(mc::J& j, Cfg const& c) {
	j.s("harness", "fftmc").s("replay", replay_of(c)).s("operation", std::string("fftw::") + form_of(c) + (c.mode == M_OOP ? " ; dense phase: fftw::dft_forward/dft_backward(which,in,out)" : " ; dense phase: fftw::dft_forward(which,io,io) / fftw::dft_backward(which,io)"))
		.n("D", c.D).s("extents", ext_str(c.ext)).s("which", mask_str(c.D, c.mask)).s("sign", c.sign < 0 ? "forward(-1)" : "backward(+1)")
		.s("in_layout", lay_name[c.lin]).s("out_layout", c.mode == M_OOP ? lay_name[c.lout] : "(same object: in-place)").s("element_type", "std::complex<double>");
}

// ------------------------------------------------------------------------------------------------ logical shape and the naive reference
struct Shape {
	int D = 0; std::vector<idx> ext; idx N = 1; std::vector<idx> tup;
	Shape() = default;
	explicit Shape(std::vector<idx> const& e) : D(static_cast<int>(e.size())), ext(e) {
		for(auto x : e) { N *= x; }
		tup.resize(static_cast<std::size_t>(N * D));
		for(idx k = 0; k < N; ++k) { idx rem = k; for(int d = D - 1; d >= 0; --d) { auto n = ext[static_cast<std::size_t>(d)]; tup[static_cast<std::size_t>(k * D + d)] = rem % n; rem /= n; } }  // row-major enumeration of the index tuples
	}
	idx const* t(idx k) const { return &tup[static_cast<std::size_t>(k * D)]; }
};

static C cmul(C const& a, C const& b) { return C{a.real() * b.real() - a.imag() * b.imag(), a.real() * b.imag() + a.imag() * b.real()}; }

struct Group {  // everything that depends on (extents, which, sign) only: the reference linear map applied to the inputs
	Shape sh; unsigned mask = 0; int sign = -1; idx Nt = 1; bool exact = true;
	std::vector<std::vector<C>> tw;     // tw[d][m] = exp(sign*2*pi*i*m/n_d)
	std::vector<std::vector<C>> bref;   // bref[b] = reference output for basis vector b (b = 2k: delta_k ; b = 2k+1: i*delta_k)
	std::vector<C> dx, dy, dz;          // dense input, its reference transform, and Nt*dx (the round trip)
	double tol_basis = 0, tol_dense = 0, tol_round = 0;

	bool masked(int d) const { return ((mask >> d) & 1U) != 0; }
	// direct definition; terms with x[j] == 0 contribute exactly nothing and are skipped
	void apply(std::vector<C> const& x, std::vector<C>& y) const {
		y.assign(static_cast<std::size_t>(sh.N), C{0, 0});
		for(idx j = 0; j < sh.N; ++j) {
			C xj = x[static_cast<std::size_t>(j)]; if(xj.real() == 0 && xj.imag() == 0) { continue; }
			idx const* tj = sh.t(j);
			for(idx k = 0; k < sh.N; ++k) {
				idx const* tk = sh.t(k); bool same_batch = true; C w{1, 0};
				for(int d = 0; d < sh.D; ++d) {
					if(!masked(d)) { if(tj[d] != tk[d]) { same_batch = false; break; } }
					else { auto n = sh.ext[static_cast<std::size_t>(d)]; w = cmul(w, tw[static_cast<std::size_t>(d)][static_cast<std::size_t>((tj[d] * tk[d]) % n)]); }
				}
				if(same_batch) { y[static_cast<std::size_t>(k)] += cmul(xj, w); }
			}
		}
	}
	Group(std::vector<idx> const& e, unsigned m, int sg) : sh(e), mask(m), sign(sg) {
		double const pi = std::acos(-1.0);
		tw.resize(static_cast<std::size_t>(sh.D));
		for(int d = 0; d < sh.D; ++d) {
			auto n = sh.ext[static_cast<std::size_t>(d)];
			if(masked(d)) { Nt *= n; if(!(n == 1 || n == 2 || n == 4)) { exact = false; } }
			for(idx q = 0; q < n; ++q) {
				C w;
				if((4 * q) % n == 0) { switch((4 * q) / n) { case 0: w = C{1, 0}; break; case 1: w = C{0, static_cast<double>(sign)}; break; case 2: w = C{-1, 0}; break; default: w = C{0, -static_cast<double>(sign)}; break; } }
				else { double a = 2.0 * pi * static_cast<double>(q) / static_cast<double>(n); w = C{std::cos(a), static_cast<double>(sign) * std::sin(a)}; }
				tw[static_cast<std::size_t>(d)].push_back(w);
			}
		}
		std::vector<C> x(static_cast<std::size_t>(sh.N), C{0, 0});
		bref.resize(static_cast<std::size_t>(2 * sh.N));
		for(idx b = 0; b < 2 * sh.N; ++b) { auto k = static_cast<std::size_t>(b / 2); x[k] = (b % 2 == 0) ? C{1, 0} : C{0, 1}; apply(x, bref[static_cast<std::size_t>(b)]); x[k] = C{0, 0}; }
		double sumabs = 0;
		for(idx k = 0; k < sh.N; ++k) { C v{static_cast<double>(k % 5 + 1), static_cast<double>((k * 3) % 7 - 3)}; dx.push_back(v); sumabs += std::abs(v); }
		apply(dx, dy);
		for(auto const& v : dx) { dz.push_back(C{v.real() * static_cast<double>(Nt), v.imag() * static_cast<double>(Nt)}); }
		double const eps = std::numeric_limits<double>::epsilon();
		tol_basis = exact ? 0.0 : 64 * eps * static_cast<double>(sh.N);
		tol_dense = exact ? 0.0 : 64 * eps * static_cast<double>(sh.N) * sumabs;
		tol_round = exact ? 0.0 : 64 * eps * static_cast<double>(sh.N) * sumabs * static_cast<double>(Nt);
	}
};

// ------------------------------------------------------------------------------------------------ stores, sentinels, layouts
static C sentinel(idx p) { return C{-7001.0 - static_cast<double>(p % 97), 9001.0 + static_cast<double>(p % 89)}; }
static C const MARK{-5555.5, 4444.25};  // pre-fill of the output view: "not written"
static bool biteq(C const& a, C const& b) { return std::memcmp(&a, &b, sizeof(C)) == 0; }

[[noreturn]] static void harness_bug(std::string const& what) { std::fprintf(stderr, "FFTMC HARNESS SELF-CHECK FAILED: %s\n", what.c_str()); std::fflush(stderr); _exit(97); }

template<class V> decltype(auto) at(V&& v, idx const* t) {  // plain indexing v[t0][t1]...
	if constexpr(std::decay_t<V>::rank_v == 1) { return v[t[0]]; } else { return at(v[t[0]], t + 1); }
}

template<class V> bool has_extents(V&& v, idx const* e) {  // zero-based extents e[0] x e[1] x ...
	if(v.extension().first() != 0 || static_cast<idx>(v.size()) != e[0]) { return false; }
	if constexpr(std::decay_t<V>::rank_v > 1) { return has_extents(v[0], e + 1); } else { return true; }
}

struct Store {
	std::vector<C> mem, image, snap; std::vector<idx> pos; std::vector<char> isview;
	void init(idx n) { image.clear(); mem.resize(static_cast<std::size_t>(n)); for(idx p = 0; p < n; ++p) { mem[static_cast<std::size_t>(p)] = sentinel(p); } isview.assign(static_cast<std::size_t>(n), 0); pos.clear(); }
	template<class V> void bind(V& v, Shape const& sh) {  // where does each logical element live; also checks that the view has the requested extents
		if(static_cast<idx>(v.num_elements()) != sh.N || !has_extents(v, sh.ext.data())) { harness_bug("view does not have the requested extents"); }
		for(idx k = 0; k < sh.N; ++k) {
			C* a = &at(v, sh.t(k)); idx p = a - mem.data();
			if(p < 0 || p >= static_cast<idx>(mem.size()) || isview[static_cast<std::size_t>(p)]) { harness_bug("view element outside its store or duplicated"); }
			isview[static_cast<std::size_t>(p)] = 1; pos.push_back(p);
		}
	}
	void fill(C const& v) { for(auto p : pos) { mem[static_cast<std::size_t>(p)] = v; } }
	void set(std::vector<C> const& x) { for(std::size_t k = 0; k < pos.size(); ++k) { mem[static_cast<std::size_t>(pos[k])] = x[k]; } }
	// every element that is not an element of the view must still hold its sentinel (bitwise).  Fast path: an image holding the sentinels, with the
	// view's own positions copied from the store, must be bit-identical to the store.
	idx first_damaged_guard() {
		if(image.size() != mem.size()) { image.resize(mem.size()); for(std::size_t p = 0; p < mem.size(); ++p) { image[p] = sentinel(static_cast<idx>(p)); } }
		for(auto p : pos) { image[static_cast<std::size_t>(p)] = mem[static_cast<std::size_t>(p)]; }
		if(std::memcmp(image.data(), mem.data(), mem.size() * sizeof(C)) == 0) { return -1; }
		for(std::size_t p = 0; p < mem.size(); ++p) { if(!isview[p] && !biteq(mem[p], sentinel(static_cast<idx>(p)))) { return static_cast<idx>(p); } }
		harness_bug("guard image differs but no damaged guard found");
	}
	idx padding() const { return static_cast<idx>(mem.size() - pos.size()); }
};

constexpr unsigned WATCHDOG_SECONDS = 10;
constexpr idx G = 8;  // guard elements before and after every storage block

template<int D, std::size_t... I> auto mkext_impl(idx const* s, std::index_sequence<I...>) { return multi::extensions_t<D>{multi::iextension{s[I]}...}; }
template<int D> auto mkext(std::vector<idx> const& s) { return mkext_impl<D>(s.data(), std::make_index_sequence<static_cast<std::size_t>(D)>{}); }

// v.sliced(lo,hi)[.strided(step)] applied to every dimension in turn (one rotation after each, D rotations = original order)
template<int D, class V, class F> void carve(V&& v, idx const* lo, idx const* hi, idx step, int d, F&& f) {
	if(d == D) { f(v); return; }
	if(step == 1) { auto&& s = v.sliced(lo[d], hi[d]); carve<D>(s.rotated(), lo, hi, step, d + 1, f); }
	else { auto&& s0 = v.sliced(lo[d], hi[d]); auto&& s = s0.strided(step); carve<D>(s.rotated(), lo, hi, step, d + 1, f); }
}

template<int K, class V, class F> void rot_k(V&& v, F&& f) { if constexpr(K == 0) { f(v); } else { rot_k<K - 1>(v.rotated(), f); } }
template<int K, class V, class F> void unrot_k(V&& v, F&& f) { if constexpr(K == 0) { f(v); } else { unrot_k<K - 1>(v.unrotated(), f); } }

static idx prod(std::vector<idx> const& e) { idx p = 1; for(auto x : e) { p *= x; } return p; }

// builds the storage for a view of logical extents sh.ext in layout `lay` inside `st` (sentinel everywhere), binds st, calls f(view&)
template<int D, class F> void with_layout(int lay, Shape const& sh, Store& st, F&& f) {
	std::vector<idx> const& e = sh.ext;
	auto run = [&](auto& v) { st.bind(v, sh); f(v); };
	auto rot_storage = [](std::vector<idx> b) { std::rotate(b.begin(), b.end() - 1, b.end()); return b; };    // storage extents s with s.rotated() == b
	auto unrot_storage = [](std::vector<idx> b) { std::rotate(b.begin(), b.begin() + 1, b.end()); return b; };  // storage extents s with s.unrotated() == b
	std::vector<idx> one(static_cast<std::size_t>(D), 1), hi(e), big(e);
	switch(lay) {
		case L_CONTIG: { st.init(prod(e) + 2 * G); multi::array_ref<C, D> a(mkext<D>(e), st.mem.data() + G); run(a); return; }
		case L_ROT: { auto s = rot_storage(e); st.init(prod(s) + 2 * G); multi::array_ref<C, D> a(mkext<D>(s), st.mem.data() + G); auto&& v = a.rotated(); run(v); return; }
		case L_UNROT: { auto s = unrot_storage(e); st.init(prod(s) + 2 * G); multi::array_ref<C, D> a(mkext<D>(s), st.mem.data() + G); auto&& v = a.unrotated(); run(v); return; }
		case L_TRANSP: {
			if constexpr(D >= 2) { auto s = e; std::swap(s[0], s[1]); st.init(prod(s) + 2 * G); multi::array_ref<C, D> a(mkext<D>(s), st.mem.data() + G); auto&& v = a.transposed(); run(v); return; }
			else { harness_bug("transposed layout requested for D=1"); }
		}
		case L_SUB: {
			for(auto& x : big) { x += 2; } for(auto& x : hi) { x += 1; }
			st.init(prod(big) + 2 * G); multi::array_ref<C, D> a(mkext<D>(big), st.mem.data() + G);
			carve<D>(a, one.data(), hi.data(), 1, 0, run); return;
		}
		case L_STRIDED: {
			for(auto& x : big) { x = 2 * x + 1; } for(auto& x : hi) { x = 2 * x + 1; }
			st.init(prod(big) + 2 * G); multi::array_ref<C, D> a(mkext<D>(big), st.mem.data() + G);
			carve<D>(a, one.data(), hi.data(), 2, 0, run); return;
		}
		case L_SUBROT: {
			for(auto& x : big) { x += 2; } for(auto& x : hi) { x += 1; }
			auto s = rot_storage(big); st.init(prod(s) + 2 * G); multi::array_ref<C, D> a(mkext<D>(s), st.mem.data() + G);
			carve<D>(a.rotated(), one.data(), hi.data(), 1, 0, run); return;
		}
		// every other element in ONE dimension d of a parent whose extent there is odd (2n+1): the stride of dimension d-1 is (2n+1)/2 times the stride of
		// dimension d, i.e. NOT a multiple of it (strides of the other layouts always divide each other); all other dimensions are complete
		case L_STEP1: case L_STEPLAST: {
			if constexpr(D >= 2) {
				auto go = [&](auto dc) {
					constexpr int d = decltype(dc)::value; auto u = static_cast<std::size_t>(d);
					big[u] = 2 * e[u] + 1; st.init(prod(big) + 2 * G); multi::array_ref<C, D> a(mkext<D>(big), st.mem.data() + G);
					rot_k<d>(a, [&](auto&& r) { auto&& s0 = r.sliced(0, 2 * e[u]); auto&& s = s0.strided(2); unrot_k<d>(s, run); });
				};
				if(lay == L_STEP1) { go(std::integral_constant<int, 1>{}); } else { go(std::integral_constant<int, D - 1>{}); }
				return;
			} else { harness_bug("stepped layout requested for D=1"); }
		}
		default: harness_bug("unknown layout");
	}
}

// ------------------------------------------------------------------------------------------------ one configuration
struct Outcome { char status = 'C'; std::string symptom; std::string rec; std::string sample; double maxerr = 0; long calls = 0; };

struct Cmp { bool bad = false; bool untouched = false; idx k = -1; C exp, got; };
template<class V> Cmp compare(V& v, Shape const& sh, std::vector<C> const& ref, double tol, double& maxerr, std::vector<C>* got_out = nullptr) {
	Cmp r; bool all_mark = true;
	for(idx k = 0; k < sh.N; ++k) {
		C g = at(v, sh.t(k)); C e = ref[static_cast<std::size_t>(k)];
		if(got_out) { got_out->push_back(g); }
		if(!biteq(g, MARK)) { all_mark = false; }
		bool ok;
		if(tol == 0.0) { ok = g.real() == e.real() && g.imag() == e.imag(); if(ok) { continue; } }
		double err = std::hypot(g.real() - e.real(), g.imag() - e.imag());
		ok = err <= tol;  // false for NaN
		if(ok) { if(err / tol > maxerr) { maxerr = err / tol; } continue; }
		if(!r.bad) { r.bad = true; r.k = k; r.exp = e; r.got = g; }
	}
	r.untouched = r.bad && all_mark;
	return r;
}

struct Fail {
	std::string symptom, all, phase, input, where, expected, got, tolerance;
	bool any() const { return !symptom.empty(); }
	void add(std::string const& s) { if(symptom.empty()) { symptom = s; } all += (all.empty() ? "" : "+") + s; }
};

template<int D> std::array<bool, D> which_of(unsigned mask) { std::array<bool, D> w{}; for(int d = 0; d < D; ++d) { w[static_cast<std::size_t>(d)] = ((mask >> d) & 1U) != 0; } return w; }

// one call + all checks.  `call` performs the library call; `src` = the store of a DISTINCT input (nullptr when in place); `dst` view/store = output.
struct Lazy {  // description of the input, only materialised when something has to be reported
	std::function<std::string()> f;
	Lazy(char const* s) : f([s] { return std::string(s); }) {}  // NOLINT(google-explicit-constructor)
	template<class F, class = decltype(std::declval<F&>()())> Lazy(F fn) : f(std::move(fn)) {}  // NOLINT(google-explicit-constructor)
};
template<class Call, class Out>
void checked_call(Call&& call, Store* src, Out& out, Store& dst, Shape const& sh, std::vector<C> const& ref, double tol, char const* phase, Lazy const& input_name, Fail& fl, double& maxerr, std::vector<C>* got_out = nullptr) {
	if(src) { src->snap.assign(src->mem.begin(), src->mem.end()); }  // (no reallocation after the first call)
	call();
	Cmp c = compare(out, sh, ref, tol, maxerr, got_out);
	auto fill_common = [&] { fl.phase = phase; fl.input = input_name.f(); fl.tolerance = tol == 0.0 ? "exact (==)" : std::to_string(tol); };
	if(c.bad) {
		fl.add(c.untouched ? "output-untouched" : "wrong-values"); fill_common();
		fl.where = "output element " + tup_str(sh.t(c.k), sh.D); fl.expected = c_str(c.exp); fl.got = c_str(c.got);
	}
	if(src && std::memcmp(src->snap.data(), src->mem.data(), src->mem.size() * sizeof(C)) != 0) {
		std::vector<C> const& src_before = src->snap;
		std::size_t p = 0; while(biteq(src_before[p], src->mem[p])) { ++p; }
		bool first = !fl.any(); fl.add(src->isview[p] ? "input-modified" : "input-store-padding-modified");
		if(first) { fill_common(); fl.where = "input store offset " + std::to_string(p); fl.expected = c_str(src_before[p]); fl.got = c_str(src->mem[p]); }
	}
	idx gd = dst.first_damaged_guard();
	if(gd >= 0) {
		bool first = !fl.any(); fl.add("written-outside-output-view");
		if(first) { fill_common(); fl.where = "output store offset " + std::to_string(gd) + " (not an element of the output view)"; fl.expected = c_str(sentinel(gd)); fl.got = c_str(dst.mem[static_cast<std::size_t>(gd)]); }
	}
}

static std::string sample_json(Cfg const& c, Group const& g, long calls, double maxerr, std::vector<C> const& got, std::vector<C> const& ref, std::string const& input) {
	std::vector<std::string> pairs;
	for(std::size_t k = 0; k < got.size() && k < 6; ++k) { pairs.push_back(mc::J().s("at", tup_str(g.sh.t(static_cast<idx>(k)), g.sh.D)).s("got", c_str(got[k])).s("reference", c_str(ref[k])).str()); }
	mc::J j; j.s("configuration", replay_of(c)).s("in_layout", lay_name[c.lin]).s("out_layout", c.mode == M_OOP ? lay_name[c.lout] : "in-place").n("elements", g.sh.N).n("transformed_points", g.Nt)
		.n("library_calls", calls).s("comparison", g.exact ? "exact" : "tolerance 64*eps*N*sum|x|").d("max_error_over_tolerance", maxerr).s("example_input", input).raw("example_output", mc::jarr(pairs));
	return j.str();
}

template<int D> Outcome run_config(Cfg const& c, Group const& g) {
	Outcome o; Fail fl; Shape const& sh = g.sh;
	auto const w = which_of<D>(c.mask);
	fftw::sign const sg = c.sign < 0 ? fftw::forward : fftw::backward;
	std::vector<C> last_got; std::string last_input;
	auto basis_name = [&](idx b) { return std::string(b % 2 ? "i*delta" : "delta") + " at " + tup_str(sh.t(b / 2), D); };
	try {
		if(c.mode == M_OOP) {
			Store si, so, sb;
			with_layout<D>(c.lin, sh, si, [&](auto& in) { with_layout<D>(c.lout, sh, so, [&](auto& out) { with_layout<D>(c.lin, sh, sb, [&](auto& back) {
				// (1) complete basis through dft(which, in, out, sign)
				si.fill(C{0, 0});
				for(idx b = 0; b < 2 * sh.N && !fl.any(); ++b) {
					auto p = static_cast<std::size_t>(si.pos[static_cast<std::size_t>(b / 2)]);
					si.mem[p] = (b % 2 == 0) ? C{1, 0} : C{0, 1}; so.fill(MARK);
					bool keep = c.want_sample && b == 2 * sh.N - 1; if(keep) { last_input = basis_name(b); }
					checked_call([&] { fftw::dft(w, in, out, sg); }, &si, out, so, sh, g.bref[static_cast<std::size_t>(b)], g.tol_basis, "basis", [&] { return basis_name(b); }, fl, o.maxerr, keep ? &last_got : nullptr);
					++o.calls; si.mem[p] = C{0, 0};
				}
				// (2) dense integers through the helpers, then the opposite helper into a third view: N_transformed * identity
				if(!fl.any()) {
					si.set(g.dx); so.fill(MARK);
					if(c.sign < 0) { checked_call([&] { fftw::dft_forward(w, in, out); }, &si, out, so, sh, g.dy, g.tol_dense, "dense/dft_forward(which,in,out)", "x[k] = (k%5+1, (3k)%7-3), k = row-major position", fl, o.maxerr); }
					else { checked_call([&] { fftw::dft_backward(w, in, out); }, &si, out, so, sh, g.dy, g.tol_dense, "dense/dft_backward(which,in,out)", "x[k] = (k%5+1, (3k)%7-3), k = row-major position", fl, o.maxerr); }
					++o.calls;
				}
				if(!fl.any()) {
					sb.fill(MARK);
					if(c.sign < 0) { checked_call([&] { fftw::dft_backward(w, out, back); }, &so, back, sb, sh, g.dz, g.tol_round, "roundtrip/dft_backward(which,out,back) after dft_forward", "transform of x[k] = (k%5+1, (3k)%7-3)", fl, o.maxerr); }
					else { checked_call([&] { fftw::dft_forward(w, out, back); }, &so, back, sb, sh, g.dz, g.tol_round, "roundtrip/dft_forward(which,out,back) after dft_backward", "transform of x[k] = (k%5+1, (3k)%7-3)", fl, o.maxerr); }
					++o.calls;
					if(!fl.any() && si.first_damaged_guard() >= 0) { fl.add("input-store-padding-modified"); fl.phase = "roundtrip"; }
				}
			}); }); });
		} else {
			Store sio;
			with_layout<D>(c.lin, sh, sio, [&](auto& io) {
				std::vector<C> x(static_cast<std::size_t>(sh.N), C{0, 0});
				for(idx b = 0; b < 2 * sh.N && !fl.any(); ++b) {
					sio.fill(C{0, 0}); sio.mem[static_cast<std::size_t>(sio.pos[static_cast<std::size_t>(b / 2)])] = (b % 2 == 0) ? C{1, 0} : C{0, 1};
					bool keep = c.want_sample && b == 2 * sh.N - 1; if(keep) { last_input = basis_name(b); }
					checked_call([&] { fftw::dft(w, io, sg); }, nullptr, io, sio, sh, g.bref[static_cast<std::size_t>(b)], g.tol_basis, "basis", [&] { return basis_name(b); }, fl, o.maxerr, keep ? &last_got : nullptr);
					++o.calls;
				}
				if(!fl.any()) {
					sio.set(g.dx);
					if(c.sign < 0) { checked_call([&] { fftw::dft_forward(w, io, io); }, nullptr, io, sio, sh, g.dy, g.tol_dense, "dense/dft_forward(which,io,io)", "x[k] = (k%5+1, (3k)%7-3), k = row-major position", fl, o.maxerr); }
					else { checked_call([&] { fftw::dft_backward(w, io); }, nullptr, io, sio, sh, g.dy, g.tol_dense, "dense/dft_backward(which,io)", "x[k] = (k%5+1, (3k)%7-3), k = row-major position", fl, o.maxerr); }
					++o.calls;
				}
				if(!fl.any()) {
					if(c.sign < 0) { checked_call([&] { fftw::dft_backward(w, io); }, nullptr, io, sio, sh, g.dz, g.tol_round, "roundtrip/dft_backward(which,io) after dft_forward", "transform of x[k] = (k%5+1, (3k)%7-3)", fl, o.maxerr); }
					else { checked_call([&] { fftw::dft_forward(w, io, io); }, nullptr, io, sio, sh, g.dz, g.tol_round, "roundtrip/dft_forward(which,io,io) after dft_backward", "transform of x[k] = (k%5+1, (3k)%7-3)", fl, o.maxerr); }
					++o.calls;
				}
			});
		}
	} catch(std::exception const& ex) {
		o.status = 'R'; o.symptom = std::string("exception: ") + ex.what(); return o;
	} catch(...) {
		o.status = 'R'; o.symptom = "exception"; return o;
	}
	if(fl.any()) {
		o.status = 'V'; o.symptom = fl.symptom;
		mc::J j; describe(j, c);
		j.s("symptom", fl.symptom).s("all_symptoms", fl.all).s("phase", fl.phase).s("input", fl.input).s("first_difference_at", fl.where).s("expected", fl.expected).s("got", fl.got).s("comparison", fl.tolerance)
			.s("detail", fl.all + " in phase " + fl.phase + ", input " + fl.input + ": " + fl.where + " expected " + fl.expected + " got " + fl.got);
		o.rec = j.str();
	} else if(c.want_sample && !last_got.empty()) {
		o.sample = sample_json(c, g, o.calls, o.maxerr, last_got, g.bref[static_cast<std::size_t>(2 * sh.N - 1)], last_input);
	}
	return o;
}

static Outcome run_config_any(Cfg const& c, Group const& g) {
	switch(c.D) {
		case 1: return run_config<1>(c, g);
		case 2: return run_config<2>(c, g);
		case 3: return run_config<3>(c, g);
		default: return run_config<4>(c, g);
	}
}

// ------------------------------------------------------------------------------------------------ forked execution of a list of configurations
struct Totals {
	long evaluations = 0, nontrivial = 0, correct = 0, rejected = 0, violating = 0, calls = 0, children = 0, child_deaths = 0, exact_cfgs = 0;
	double maxerr = 0; std::map<std::string, long> rejected_classes;
	std::string last_key, last_rec;  // of the last violation (replay mode)
};
static Totals T;

static void account(Cfg const& c, Group const& g, char status, std::string const& symptom, std::string const& rec, std::string const& sample, double maxerr, long calls) {
	++T.evaluations; if(!identity_transform(c)) { ++T.nontrivial; } if(g.exact) { ++T.exact_cfgs; }
	T.calls += calls; if(maxerr > T.maxerr) { T.maxerr = maxerr; }
	if(status == 'C') { ++T.correct; if(!sample.empty()) { mc::R.sample(sample, 4); } }
	else if(status == 'R') { ++T.rejected; ++T.rejected_classes[key_of(c, "rejected") + " :: " + symptom.substr(0, 160)]; }
	else { ++T.violating; T.last_key = key_of(c, symptom); T.last_rec = rec; mc::R.violation(T.last_key, rec); }
}

static bool write_all(int fd, std::string const& s) { std::size_t off = 0; while(off < s.size()) { auto n = write(fd, s.data() + off, s.size() - off); if(n <= 0) { return false; } off += static_cast<std::size_t>(n); } return true; }

// runs cfgs[0..n) of one group; every configuration executes in a forked child (a child runs as many as it survives)
static void run_group(std::vector<Cfg> const& cfgs, Group const& g, bool nofork) {
	std::size_t next = 0;
	if(nofork) { for(auto const& c : cfgs) { Outcome o = run_config_any(c, g); account(c, g, o.status, o.symptom, o.rec, o.sample, o.maxerr, o.calls); } return; }
	while(next < cfgs.size()) {
		if(next != 0 && mc::past_deadline()) { mc::R.exhaustive = false; return; }  // only reached after a child died: do not let a tree on which everything dies or hangs overrun the deadline
		int pfd[2]; if(pipe(pfd) != 0) { harness_bug("pipe"); }
		int err = memfd_create("fftmc_err", 0);
		std::fflush(stdout); std::fflush(stderr);
		pid_t pid = fork();
		if(pid < 0) { harness_bug("fork"); }
		if(pid == 0) {
			close(pfd[0]); dup2(err, 2);
			for(std::size_t i = next; i < cfgs.size(); ++i) {
				mc::cur_set(key_of(cfgs[i], "?"), replay_of(cfgs[i]));
				alarm(WATCHDOG_SECONDS);  // a configuration takes milliseconds; a wrong plan can make FFTW spin forever
				Outcome o = run_config_any(cfgs[i], g);
				alarm(0);
				char head[96]; std::snprintf(head, sizeof head, "%zu\t%c\t%.17g\t%ld\t", i, o.status, o.maxerr, o.calls);
				std::string line = std::string(head) + mc::jesc(o.symptom) + "\t" + (o.rec.empty() ? "-" : o.rec) + "\t" + (o.sample.empty() ? "-" : o.sample) + "\n";
				if(!write_all(pfd[1], line)) { _exit(98); }
			}
			_exit(0);
		}
		close(pfd[1]); ++T.children;
		std::string buf; { char b[65536]; for(;;) { auto n = read(pfd[0], b, sizeof b); if(n <= 0) { break; } buf.append(b, static_cast<std::size_t>(n)); } }
		close(pfd[0]);
		int st = 0; waitpid(pid, &st, 0);
		std::string se = mc::read_fd_all(err); close(err);
		// complete lines = configurations that finished
		std::size_t off = 0;
		for(;;) {
			auto nl = buf.find('\n', off); if(nl == std::string::npos) { break; }
			std::string line = buf.substr(off, nl - off); off = nl + 1;
			std::vector<std::string> f; { std::string cur; for(char ch : line) { if(ch == '\t') { f.push_back(cur); cur.clear(); } else { cur += ch; } } f.push_back(cur); }
			if(f.size() != 7 || static_cast<std::size_t>(std::atol(f[0].c_str())) != next) { harness_bug("protocol: unexpected line from child: " + line.substr(0, 200)); }
			account(cfgs[next], g, f[1][0], f[4], f[5] == "-" ? "" : f[5], f[6] == "-" ? "" : f[6], std::atof(f[2].c_str()), std::atol(f[3].c_str()));
			++next;
		}
		if(WIFEXITED(st) && WEXITSTATUS(st) == 0) { if(next != cfgs.size()) { harness_bug("child exited before finishing its group"); } break; }
		if(WIFEXITED(st) && (WEXITSTATUS(st) == 97 || WEXITSTATUS(st) == 98)) { std::fprintf(stderr, "%s", se.c_str()); harness_bug("self-check failed in a child at " + (next < cfgs.size() ? replay_of(cfgs[next]) : std::string("?"))); }
		if(next >= cfgs.size()) { harness_bug("child died after finishing its group"); }
		// the child died while executing cfgs[next]
		++T.child_deaths;
		Cfg const& c = cfgs[next];
		if(std::string(mc::g_cur->trace) != replay_of(c)) { harness_bug("shared record disagrees with the pipe about the configuration that died"); }
		auto pa = se.find("Assertion"); auto ps = se.find("Sanitizer"); auto pu = se.find("runtime error:"); auto first_san = std::min(ps, pu);
		bool sigabrt = WIFSIGNALED(st) && WTERMSIG(st) == SIGABRT;
		std::string digest = mc::crash_digest(se).substr(0, 400);
		if(sigabrt && pa != std::string::npos && pa < first_san && se.find("include/boost/multi") != std::string::npos) {
			account(c, g, 'R', "assertion: " + digest, "", "", 0, 0);
		} else {
			std::string symptom;
			if(first_san != std::string::npos && (pa == std::string::npos || first_san < pa)) { symptom = ps != std::string::npos && ps <= pu ? "crash:address-sanitizer" : "crash:undefined-behaviour-sanitizer"; }
			else if(pa != std::string::npos) { symptom = "crash:assertion-outside-the-library"; }
			else if(WIFSIGNALED(st) && WTERMSIG(st) == SIGALRM) { symptom = "hang"; digest = "the configuration did not finish within " + std::to_string(WATCHDOG_SECONDS) + " s (normal: milliseconds)"; }
			else if(WIFSIGNALED(st)) { symptom = "crash:signal-" + std::to_string(WTERMSIG(st)); }
			else { symptom = "crash:exit-" + std::to_string(WEXITSTATUS(st)); }
			mc::J j; describe(j, c); j.s("symptom", symptom).s("cause", WIFSIGNALED(st) ? "signal " + std::to_string(WTERMSIG(st)) : "exit " + std::to_string(WEXITSTATUS(st))).s("stderr", digest).s("detail", symptom + ": " + digest);
			account(c, g, 'V', symptom, j.str(), "", 0, 0);
		}
		++next;
	}
}

// ------------------------------------------------------------------------------------------------ the grid
static std::vector<int> layouts_for(int D) { if(D == 1) { return {L_CONTIG, L_SUB, L_STRIDED}; } if(D == 2) { return {L_CONTIG, L_ROT, L_UNROT, L_TRANSP, L_SUB, L_STRIDED, L_SUBROT, L_STEP1}; } return {L_CONTIG, L_ROT, L_UNROT, L_TRANSP, L_SUB, L_STRIDED, L_SUBROT, L_STEP1, L_STEPLAST}; }

static std::vector<Cfg> group_configs(int D, std::vector<idx> const& ext, unsigned mask, int sign) {
	std::vector<Cfg> v; auto ls = layouts_for(D);
	for(int li : ls) { for(int lo : ls) { Cfg c; c.D = D; c.ext = ext; c.mask = mask; c.sign = sign; c.lin = li; c.lout = lo; c.mode = M_OOP; v.push_back(c); } }
	for(int l : ls) { Cfg c; c.D = D; c.ext = ext; c.mask = mask; c.sign = sign; c.lin = l; c.lout = l; c.mode = M_INPLACE; v.push_back(c); }
	return v;
}

int main(int argc, char** argv) {
	mc::Args args(argc, argv);
	bool thorough = args.get("tier", "quick") == "thorough";
	mc::set_deadline(static_cast<double>(args.geti("deadline", 3000)));
	long shard = args.geti("shard", 0), nshards = std::max(1L, args.geti("nshards", 1));
	bool nofork = args.has("nofork");
	long only_d = args.geti("only-d", 0);
	mc::cur_init();

	std::string only = args.get("replay", "");
	if(!only.empty()) {
		Cfg c; if(!parse_replay(only, c)) { std::printf("REPLAY ERROR: cannot parse '%s' (expected D:e0xe1..:TF..:fwd|bwd:<in>:<out>:oop|inplace)\n", only.c_str()); return 2; }
		if(c.D == 1 && (c.lin == L_TRANSP || c.lout == L_TRANSP)) { std::printf("REPLAY ERROR: transposed needs D>=2\n"); return 2; }
		if(c.mode == M_INPLACE) { c.lout = c.lin; }
		Group g(c.ext, c.mask, c.sign);
		run_group({c}, g, nofork);
		if(T.violating) { std::printf("REPLAY VIOLATION %s %s\n", T.last_key.c_str(), T.last_rec.c_str()); return 1; }
		std::printf("REPLAY OK (%s; %ld library calls; max |got-ref|/tolerance = %.3g)\n", T.rejected ? ("rejected: " + T.rejected_classes.begin()->first).c_str() : "correct", T.calls, T.maxerr);
		return 0;
	}

	int maxD = thorough ? 4 : 3;
	long group_no = 0; long groups_run = 0;
	std::map<int, long> cfgs_per_D, groups_per_D;
	bool stop = false;
	for(int D = 1; D <= maxD && !stop; ++D) {
		if(only_d && only_d != D) { continue; }
		idx maxext = args.geti("maxext", thorough ? (D == 4 ? 3 : 5) : 4);
		std::vector<idx> ext(static_cast<std::size_t>(D), 1);
		for(;;) {  // odometer over extents
			for(unsigned mask = 0; mask < (1U << D) && !stop; ++mask) {
				for(int sign = -1; sign <= 1 && !stop; sign += 2) {
					long gno = group_no++;
					if(gno % nshards != shard) { continue; }
					if(mc::past_deadline()) { mc::R.exhaustive = false; stop = true; break; }
					Group g(ext, mask, sign);
					auto cfgs = group_configs(D, ext, mask, sign);
					if(mc::R.samples.size() < 4 && g.sh.N >= 4 && mask != 0 && !identity_transform(cfgs[0])) {  // written-out samples: one per group until 4 are collected
						auto have = mc::R.samples.size();
						for(auto& c : cfgs) {
							if(D == 1) { c.want_sample = c.mode == M_OOP && c.lin == L_STRIDED && c.lout == L_SUB; continue; }
							switch(have) {
								case 0: c.want_sample = c.mode == M_OOP && c.lin == L_ROT && c.lout == L_STRIDED; break;
								case 1: c.want_sample = c.mode == M_INPLACE && c.lin == L_SUBROT; break;
								case 2: c.want_sample = c.mode == M_OOP && c.lin == L_SUB && c.lout == L_TRANSP; break;
								default: c.want_sample = c.mode == M_OOP && c.lin == L_UNROT && c.lout == L_CONTIG; break;
							}
						}
					}
					run_group(cfgs, g, nofork);
					++groups_run; cfgs_per_D[D] += static_cast<long>(cfgs.size()); ++groups_per_D[D];
				}
			}
			if(stop) { break; }
			int d = D - 1; while(d >= 0 && ext[static_cast<std::size_t>(d)] == maxext) { ext[static_cast<std::size_t>(d)] = 1; --d; }
			if(d < 0) { break; }
			++ext[static_cast<std::size_t>(d)];
		}
		auto nl = static_cast<long>(layouts_for(D).size());
		mc::R.note("D=" + std::to_string(D) + ": extents {1.." + std::to_string(maxext) + "}^" + std::to_string(D) + " x " + std::to_string(1L << D) + " masks x 2 signs x (" + std::to_string(nl * nl) + " ordered layout pairs out-of-place + " + std::to_string(nl) + " layouts in-place); this shard ran " + std::to_string(groups_per_D[D]) + " (extents,mask,sign) groups = " + std::to_string(cfgs_per_D[D]) + " configurations; each = 2N basis calls + dense helper call + opposite helper call");
	}
	mc::R.add("evaluations", T.evaluations); mc::R.add("distinct_nontrivial", T.nontrivial); mc::R.add("rejected", T.rejected); mc::R.add("correct", T.correct); mc::R.add("violating", T.violating);
	mc::R.add("library_calls", T.calls); mc::R.add("children", T.children); mc::R.add("child_deaths", T.child_deaths); mc::R.add("configurations_compared_exactly", T.exact_cfgs);
	{ char b[320]; std::snprintf(b, sizeof b, "largest |got-reference|/tolerance among accepted elements in this shard: %.3g (tolerance 64*eps*N*sum|x|; exact == where all transformed extents are 1, 2 or 4)", T.maxerr); mc::R.note(b); }
	mc::R.note("distinct_nontrivial = configurations whose transform is not the identity (some transformed extent >= 2); all extents are >= 1 in every configuration");
	{ int k = 0; for(auto const& [cls, n] : T.rejected_classes) { if(k++ >= 12) { break; } mc::R.note("rejected x" + std::to_string(n) + ": " + cls); } }
	mc::R.emit(stdout);
	return 0;
}
