// C07 — equality and ordering: all ordered pairs of small logical values x representation pairs x six operators,
// against nested-sequence comparison.  -DCMP_D=<0..4>
#include <boost/multi/array.hpp>

#include <limits>
#include <type_traits>

#include "../engine/mc_common.hpp"
#include "../engine/view_oracle.hpp"
#ifdef CMP_FANCY
#include "../engine/fancy_ptr.hpp"
#endif

namespace multi = boost::multi;
using vm::idx;

#ifndef CMP_D
#define CMP_D 2
#endif
constexpr int D = CMP_D;

struct Val { std::vector<idx> ext; std::vector<int> v; };
static idx prod(std::vector<idx> const& e) { idx p = 1; for(auto x : e) { p *= x; } return p; }
static std::string vstr(Val const& a) { std::string s = "{"; for(std::size_t i = 0; i < a.ext.size(); ++i) { s += (i ? "x" : ""); s += std::to_string(a.ext[i]); } s += ":"; for(int x : a.v) { s += std::to_string(x); } return s + "}"; }

// reference semantics: nested sequences, lexicographic over the leading dimension, a proper prefix is smaller
static bool m_eq(Val const& a, Val const& b) { return a.ext == b.ext && a.v == b.v; }
static bool m_less_rec(std::vector<idx> const& ea, int const* pa, std::vector<idx> const& eb, int const* pb, std::size_t dim) {
	if(dim == ea.size()) { return *pa < *pb; }
	idx na = ea[dim], nb = eb[dim]; idx sa = 1, sb = 1;
	for(std::size_t j = dim + 1; j < ea.size(); ++j) { sa *= ea[j]; sb *= eb[j]; }
	for(idx i = 0; i < std::min(na, nb); ++i) {
		if(m_less_rec(ea, pa + i*sa, eb, pb + i*sb, dim + 1)) { return true; }
		if(m_less_rec(eb, pb + i*sb, ea, pa + i*sa, dim + 1)) { return false; }
	}
	return na < nb;
}
static bool m_less(Val const& a, Val const& b) { if(D == 0) { return a.v[0] < b.v[0]; } return m_less_rec(a.ext, a.v.data(), b.ext, b.v.data(), 0); }

// ---- all logical values
static std::vector<Val> values(bool thorough, bool wide) {
	std::vector<std::vector<idx>> shapes; int alpha = 2;
	switch(D) {
		case 0: shapes = {{}}; alpha = 3; break;
		case 1: shapes = {{0}, {1}, {2}, {3}}; alpha = 3; break;
		case 2: shapes = {{0, 0}, {0, 2}, {1, 1}, {1, 2}, {2, 1}, {2, 2}}; if(thorough) { shapes.push_back({1, 3}); shapes.push_back({3, 1}); shapes.push_back({2, 3}); } break;
		case 3: shapes = {{1, 1, 2}, {1, 2, 1}, {2, 1, 1}, {1, 2, 2}, {2, 1, 2}, {2, 2, 1}}; if(thorough) { shapes.push_back({2, 2, 2}); shapes.push_back({0, 2, 2}); } break;
		default: shapes = {{1, 1, 1, 2}, {2, 1, 1, 1}, {1, 2, 1, 1}}; if(wide) { for(auto const& w : std::vector<std::vector<idx>>{{1, 1, 2, 2}, {1, 2, 1, 2}, {1, 2, 2, 1}, {2, 1, 1, 2}, {2, 1, 2, 1}, {2, 2, 1, 1}}) { shapes.push_back(w); } }   // every position of two non-trivial axes (C07 runs; --wide)
			else if(thorough) { shapes.push_back({1, 1, 2, 2}); shapes.push_back({2, 2, 1, 1}); } break;
	}
	std::vector<Val> out;
	for(auto const& sh : shapes) {
		idx n = prod(sh); long cnt = 1; for(idx i = 0; i < n; ++i) { cnt *= alpha; }
		for(long c = 0; c < cnt; ++c) { Val x; x.ext = sh; long q = c; for(idx i = 0; i < n; ++i) { x.v.push_back(static_cast<int>(q % alpha)); q /= alpha; } out.push_back(x); }
	}
	return out;
}

// ---- representations
enum Rep { R_ARRAY, R_REF, R_TRANSPOSED_STORAGE, R_SUBBLOCK, R_SHORT_ARRAY, R_SHORT_VIEW, R_STATIC, R_INNER_PADDED, R_OUTER_PADDED, NREP };
static char const* const rep_name[] = {"array", "array_ref", "view-of-rotated-storage", "padded-sub-block", "array<short>", "view-of-array<short>", "static_array", "block-padded-in-last-dimension", "block-padded-in-leading-dimension"};

// representations >= R_PERM0: the value stored with its axes permuted (every non-identity permutation of the D axes) and viewed back in logical order through
// rotated/transposed/unrotated — compact, gap-free layouts whose memory order is not the logical order in ways a single rotation does not produce
constexpr int R_PERM0 = 100;
static std::vector<std::vector<int>> const& perms() {
	static std::vector<std::vector<int>> const v = [] { std::vector<std::vector<int>> r; std::vector<int> p(static_cast<std::size_t>(D)); for(int i = 0; i < D; ++i) { p[static_cast<std::size_t>(i)] = i; } while(std::next_permutation(p.begin(), p.end())) { r.push_back(p); } return r; }();
	return v;
}
static std::string rep_nm(int r) { if(r < R_PERM0) { return rep_name[r]; } return "view-of-axis-permuted-storage"; }
static std::string perm_str(int r) { std::string s; for(int x : perms()[static_cast<std::size_t>(r - R_PERM0)]) { s += std::to_string(x); } return s; }
template<class V, class F> void apply_ops(V&& v, std::string const& ops, std::size_t k, F&& f) {
	if constexpr(vm::rank_of<V> >= 2) {
		if(k == ops.size()) { f(v); return; }
		switch(ops[k]) { case 'r': apply_ops(v.rotated(), ops, k + 1, f); return; case 'u': apply_ops(v.unrotated(), ops, k + 1, f); return; default: apply_ops(v.transposed(), ops, k + 1, f); return; }
	} else { (void)ops; (void)k; f(v); }
}

template<class A> void put(A&& a, Val const& x) {  // write the logical value through plain indexing (C01's business)
	idx k = 0;
	std::function<void(std::vector<idx>&, std::size_t)> rec;
	(void)k; (void)rec; (void)a; (void)x;
}
template<class V> void fill_rec(V&& v, int const*& p) {
	if constexpr(vm::rank_of<V> == 1) { for(auto i = v.extension().first(); i != v.extension().last(); ++i) { v[i] = static_cast<typename std::decay_t<V>::element_type>(*p++); } }
	else { for(auto i = v.extension().first(); i != v.extension().last(); ++i) { fill_rec(v[i], p); } }
}
template<class V> void fill(V&& v, Val const& x) { if(x.v.empty()) { return; } int const* p = x.v.data(); fill_rec(v, p); }

template<int DD, class V, class F> void subblock(V&& v, std::vector<idx> const& ext, int d, F&& f) {
	if(d == DD) { f(v); return; }
	auto s = v.sliced(0, ext[static_cast<std::size_t>(d)]);
	subblock<DD>(s.rotated(), ext, d + 1, f);
}

// calls f(operand) with the value materialised in representation r; mutable lvalue
static int g_pad = -9;   // padding value of the enclosing array: differs between the two operands so that a comparison that looks at padding is caught
template<class F>
bool with_rep(Val const& x, int r, F&& f) {
	if constexpr(D == 0) {
		switch(r) {
			case R_ARRAY: { multi::array<int, 0> a(x.v[0]); f(a); return true; }
			case R_REF: { int buf = x.v[0]; multi::array_ref<int, 0> a(&buf, {}); f(a); return true; }
			case R_SUBBLOCK: { multi::array<int, 1> big({5, x.v[0], 7}); f(big[1]); return true; }  // element reference: the 0-D "view"
			case R_SHORT_ARRAY: { multi::array<short, 0> a(static_cast<short>(x.v[0])); f(a); return true; }
			case R_STATIC: { multi::static_array<int, 0> a(x.v[0]); f(a); return true; }
			default: return false;
		}
	} else {
		auto exts = vo::make_extensions<D>(x.ext);
		idx n = prod(x.ext);
		if(r >= R_PERM0) {
			if(n == 0) { return false; }
			auto const& sg = perms()[static_cast<std::size_t>(r - R_PERM0)];   // storage axis j holds logical axis sg[j]
			std::vector<idx> se(x.ext); for(std::size_t j = 0; j < sg.size(); ++j) { se[j] = x.ext[static_cast<std::size_t>(sg[j])]; }
			multi::array<int, D> st(vo::make_extensions<D>(se));
			std::vector<int> cur(sg); std::string ops;   // bubble sort of the view's axes, each adjacent swap (i,i+1) = rotated^i transposed unrotated^i
			for(bool sw = true; sw;) { sw = false; for(std::size_t i = 0; i + 1 < cur.size(); ++i) { if(cur[i] > cur[i + 1]) { std::swap(cur[i], cur[i + 1]); ops += std::string(i, 'r') + "t" + std::string(i, 'u'); sw = true; } } }
			apply_ops(st(), ops, 0, [&](auto&& v) { fill(v, x); f(v); });
			return true;
		}
		switch(r) {
			case R_ARRAY: { multi::array<int, D> a(exts); fill(a, x); f(a); return true; }
			case R_STATIC: { multi::static_array<int, D> a(exts); fill(a, x); f(a); return true; }
#ifdef CMP_FANCY   // C11: array_ref over a user-defined pointer with provenance
			case R_REF: { std::vector<int> buf(static_cast<std::size_t>(n + 1)); multi::array_ref<int, D, fancy::ptr<int>> a(exts, fancy::make(buf.data(), n)); fill(a, x); f(a); return true; }
#else
			case R_REF: { std::vector<int> buf(static_cast<std::size_t>(n + 1)); multi::array_ref<int, D> a(exts, buf.data()); fill(a, x); f(a); return true; }
#endif
			case R_TRANSPOSED_STORAGE: {
				if(D < 2 || n == 0) { return false; }
				std::vector<idx> rs(x.ext); std::rotate(rs.begin(), rs.end() - 1, rs.end());  // storage extents = unrotated logical extents
				multi::array<int, D> st(vo::make_extensions<D>(rs));
				auto&& v = st.rotated(); fill(v, x); f(v); return true;
			}
			case R_SUBBLOCK: {
				if(n == 0) { return false; }
				std::vector<idx> be(x.ext); for(auto& e : be) { e += 1; }
				multi::array<int, D> big(vo::make_extensions<D>(be), g_pad);
				subblock<D>(big(), x.ext, 0, [&](auto&& v) { fill(v, x); f(v); }); return true;
			}
			case R_INNER_PADDED: case R_OUTER_PADDED: {
				if(n == 0 || D < 2) { return false; }
				std::vector<idx> be(x.ext); if(r == R_INNER_PADDED) { be.back() += 1; } else { be.front() += 1; }
				multi::array<int, D> big(vo::make_extensions<D>(be), g_pad);
				subblock<D>(big(), x.ext, 0, [&](auto&& v) { fill(v, x); f(v); }); return true;
			}
			case R_SHORT_ARRAY: { multi::array<short, D> a(exts); fill(a, x); f(a); return true; }
			case R_SHORT_VIEW: {
				if(n == 0) { return false; }
				std::vector<idx> be(x.ext); for(auto& e : be) { e += 1; }
				multi::array<short, D> big(vo::make_extensions<D>(be), static_cast<short>(-9));
				subblock<D>(big(), x.ext, 0, [&](auto&& v) { fill(v, x); f(v); }); return true;
			}
			default: return false;
		}
	}
}

// ---- operator probes (SFINAE: an operator that does not compile for an operand pair is a finding of C07)
template<class A, class B, class = void> struct has_eq : std::false_type {}; template<class A, class B> struct has_eq<A, B, std::void_t<decltype(std::declval<A>() == std::declval<B>())>> : std::true_type {};
template<class A, class B, class = void> struct has_ne : std::false_type {}; template<class A, class B> struct has_ne<A, B, std::void_t<decltype(std::declval<A>() != std::declval<B>())>> : std::true_type {};
template<class A, class B, class = void> struct has_lt : std::false_type {}; template<class A, class B> struct has_lt<A, B, std::void_t<decltype(std::declval<A>() < std::declval<B>())>> : std::true_type {};
template<class A, class B, class = void> struct has_le : std::false_type {}; template<class A, class B> struct has_le<A, B, std::void_t<decltype(std::declval<A>() <= std::declval<B>())>> : std::true_type {};
template<class A, class B, class = void> struct has_gt : std::false_type {}; template<class A, class B> struct has_gt<A, B, std::void_t<decltype(std::declval<A>() > std::declval<B>())>> : std::true_type {};
template<class A, class B, class = void> struct has_ge : std::false_type {}; template<class A, class B> struct has_ge<A, B, std::void_t<decltype(std::declval<A>() >= std::declval<B>())>> : std::true_type {};

static long g_evals = 0, g_pairs = 0, g_nontrivial = 0;
static std::set<std::string> g_notcompile;

struct Ctx { Val const* a; Val const* b; int ra, rb; bool ca, cb; bool same_object; };

static void report(Ctx const& c, char const* op, bool got, bool expect) {
	std::string rp = std::to_string(D) + "/" + vstr(*c.a) + "/" + std::to_string(c.ra) + (c.ca ? "c" : "m") + "/" + vstr(*c.b) + "/" + std::to_string(c.rb) + (c.cb ? "c" : "m");
	std::string cls = std::string(prod(c.a->ext) == 0 || prod(c.b->ext) == 0 ? "empty-operand" : (c.a->ext == c.b->ext ? "same-extents" : "different-extents"));
	mc::R.violation("D" + std::to_string(D) + "|" + rep_nm(c.ra) + (c.ca ? " const" : "") + " " + op + " " + rep_nm(c.rb) + (c.cb ? " const" : "") + "|" + cls + "|wrong-result",
		mc::J().s("harness", "cmpmc").s("replay", rp).s("lhs", vstr(*c.a)).s("rhs", vstr(*c.b)).s("lhs_rep", rep_nm(c.ra) + (c.ra >= R_PERM0 ? " storage axes " + perm_str(c.ra) : "")).s("rhs_rep", rep_nm(c.rb) + (c.rb >= R_PERM0 ? " storage axes " + perm_str(c.rb) : "")).s("op", op).s("detail", std::string("library says ") + (got ? "true" : "false") + ", nested-sequence semantics say " + (expect ? "true" : "false")).str());
}
static void nocompile(Ctx const& c, char const* op) {
	auto is_short = [](int r) { return r == R_SHORT_ARRAY || r == R_SHORT_VIEW; };  // (padding variants are int)
	auto owning = [](int r) { return r == R_ARRAY || r == R_STATIC || r == R_SHORT_ARRAY; };
	std::string cls;
	if(is_short(c.ra) != is_short(c.rb) && std::string(op) != "==" && std::string(op) != "!=") { cls = "ordering-between-different-element-types"; }   // one class per (rank, operator)
#ifdef CMP_FANCY
	else if((c.ra == R_REF) != (c.rb == R_REF) && std::string(op) != "==" && std::string(op) != "!=") { cls = "ordering-between-different-pointer-types"; }   // the property promises ==/!= across pointer types, ordering only within one
#endif
	else if(D == 0 && (owning(c.ra) || owning(c.rb))) { cls = "owning-0D-array-operand"; }
	else { cls = std::string(rep_nm(c.ra)) + (c.ca ? " const" : "") + " vs " + rep_nm(c.rb) + (c.cb ? " const" : ""); }
	std::string k = "D" + std::to_string(D) + "|" + op + "|" + cls + "|does-not-compile";
	if(g_notcompile.insert(k).second) { mc::R.violation(k, mc::J().s("harness", "cmpmc").s("replay", "compile").s("op", op).s("lhs_rep", rep_nm(c.ra)).s("rhs_rep", rep_nm(c.rb)).s("detail", std::string("the expression `") + rep_nm(c.ra) + " " + op + " " + rep_nm(c.rb) + "` is ill-formed (missing or ambiguous operator)").str()); }
}

template<class X, class Y>
void check_ops(X&& x, Y&& y, Ctx const& c) {
	bool const empty = prod(c.a->ext) == 0 || prod(c.b->ext) == 0;
	bool eq = m_eq(*c.a, *c.b), lt = m_less(*c.a, *c.b), gt = m_less(*c.b, *c.a);
	bool got_eq = eq, got_ne = !eq;
	if constexpr(has_eq<X, Y>::value) { ++g_evals; got_eq = static_cast<bool>(x == y); if(!empty && got_eq != eq) { report(c, "==", got_eq, eq); } } else { nocompile(c, "=="); }
	if constexpr(has_ne<X, Y>::value) { ++g_evals; got_ne = static_cast<bool>(x != y); if(!empty && got_ne == eq) { report(c, "!=", got_ne, !eq); } } else { nocompile(c, "!="); }
	if constexpr(has_eq<X, Y>::value && has_ne<X, Y>::value) { if(got_eq == got_ne) { report(c, "== vs !=", got_ne, !got_eq); } }  // required even for empty operands
	if(empty) {  // for empty operands (collapsed by the library) only ==/!= consistency is required; equal empties of identical extents must still be equal
		if(c.a->ext == c.b->ext) { if constexpr(has_eq<X, Y>::value) { if(!got_eq) { report(c, "==", got_eq, true); } } }
		return;
	}
	if constexpr(has_lt<X, Y>::value) { ++g_evals; bool g = static_cast<bool>(x < y); if(g != lt) { report(c, "<", g, lt); } } else { nocompile(c, "<"); }
	if constexpr(has_le<X, Y>::value) { ++g_evals; bool g = static_cast<bool>(x <= y); if(g != (lt || eq)) { report(c, "<=", g, lt || eq); } } else { nocompile(c, "<="); }
	if constexpr(has_gt<X, Y>::value) { ++g_evals; bool g = static_cast<bool>(x > y); if(g != gt) { report(c, ">", g, gt); } } else { nocompile(c, ">"); }
	if constexpr(has_ge<X, Y>::value) { ++g_evals; bool g = static_cast<bool>(x >= y); if(g != (gt || eq)) { report(c, ">=", g, gt || eq); } } else { nocompile(c, ">="); }
}

struct RP { int a, b; };

// Partially ordered elements (double with NaN): trichotomy cannot hold and C07 does not promise it, but the operators must still be each other's mirror images —
// a > b is b < a, a >= b is b <= a, == is symmetric, != is its negation — for owning arrays and for rows (views) alike.  All pairs of equal extents over {0, 1, NaN}.
static long g_po = 0;
template<class X, class Y> void mirror_laws(X const& x, Y const& y, std::string const& what, std::string const& rp) {
	auto bad = [&](char const* law) { mc::R.violation("D" + std::to_string(D) + "|partially-ordered-elements|" + what + "|" + law, mc::J().s("harness", "cmpmc").s("replay", rp).s("operands", what).s("law", law).s("detail", "element type double, values from {0, 1, NaN}").str()); };
	++g_po; if(static_cast<bool>(x > y) != static_cast<bool>(y < x)) { bad("a>b is not b<a"); }
	++g_po; if(static_cast<bool>(x >= y) != static_cast<bool>(y <= x)) { bad("a>=b is not b<=a"); }
	++g_po; if(static_cast<bool>(x == y) != static_cast<bool>(y == x)) { bad("== is not symmetric"); }
	++g_po; if(static_cast<bool>(x != y) == static_cast<bool>(x == y)) { bad("!= is not the negation of =="); }
}
// element type that is trivially copyable and has unique object representations but whose == is NOT bitwise identity (1/2 == 2/4): equality of arrays must be element-wise ==
struct Fr { int n, d; friend bool operator==(Fr const& a, Fr const& b) { return a.n*b.d == b.n*a.d; } friend bool operator!=(Fr const& a, Fr const& b) { return !(a == b); } friend bool operator<(Fr const& a, Fr const& b) { return a.n*b.d < b.n*a.d; } };
template<int DD> void nonbitwise_equality_t() {
	if constexpr(DD == 1 || DD == 2) {
		Fr const vals[3] = {{1, 2}, {2, 4}, {1, 3}};
		std::vector<idx> ext = DD == 1 ? std::vector<idx>{3} : std::vector<idx>{2, 2};
		idx const n = prod(ext); long tot = 1; for(idx i = 0; i < n; ++i) { tot *= 3; }
		for(long ca = 0; ca < tot; ++ca) { for(long cb = 0; cb < tot; ++cb) {
			multi::array<Fr, DD> a(vo::make_extensions<DD>(ext)), b(vo::make_extensions<DD>(ext));
			long qa = ca, qb = cb; bool exp = true; for(idx i = 0; i < n; ++i) { a.data_elements()[i] = vals[qa % 3]; b.data_elements()[i] = vals[qb % 3]; if(!(vals[qa % 3] == vals[qb % 3])) { exp = false; } qa /= 3; qb /= 3; }
			std::string rp = "fr/" + std::to_string(ca) + "/" + std::to_string(cb);
			mc::cur_set("non-bitwise-equality", rp);
			multi::array_ref<Fr, DD> ra(a.data_elements(), a.extensions()), rb(b.data_elements(), b.extensions());
			auto chk = [&](bool eq, bool ne, char const* what) {
				g_po += 2;
				if(eq != exp || ne == exp) { mc::R.violation("D" + std::to_string(DD) + "|element-with-non-bitwise-equality|" + what + "|" + (eq != exp ? "==" : "!=") + " wrong", mc::J().s("harness", "cmpmc").s("replay", rp).s("operands", what).s("detail", std::string("element type {n,d} with n1*d2 == n2*d1 as equality; element-wise equality is ") + (exp ? "true" : "false") + ", library says == " + (eq ? "true" : "false") + ", != " + (ne ? "true" : "false")).str()); }
			};
			chk(a == b, a != b, "array vs array"); chk(ra == rb, ra != rb, "array_ref vs array_ref"); chk(a == rb, a != rb, "array vs array_ref"); chk(a() == b(), a() != b(), "view vs view"); chk(a == b(), a != b(), "array vs view");
			if constexpr(DD == 2) { chk(a.rotated() == b.rotated(), a.rotated() != b.rotated(), "rotated view vs rotated view"); }
		} }
	}
}
template<int DD> void partially_ordered_t() {
	if constexpr(DD == 1 || DD == 2) {
		double const vals[3] = {0.0, 1.0, std::numeric_limits<double>::quiet_NaN()};
		std::vector<idx> ext = DD == 1 ? std::vector<idx>{3} : std::vector<idx>{2, 2};
		idx const n = prod(ext); long tot = 1; for(idx i = 0; i < n; ++i) { tot *= 3; }
		for(long ca = 0; ca < tot; ++ca) { for(long cb = 0; cb < tot; ++cb) {
			multi::array<double, DD> a(vo::make_extensions<DD>(ext)), b(vo::make_extensions<DD>(ext));
			long qa = ca, qb = cb; for(idx i = 0; i < n; ++i) { a.data_elements()[i] = vals[qa % 3]; b.data_elements()[i] = vals[qb % 3]; qa /= 3; qb /= 3; }
			std::string rp = "po/" + std::to_string(ca) + "/" + std::to_string(cb);
			mc::cur_set("partially-ordered", rp);
			mirror_laws(a, b, "array vs array", rp);
			mirror_laws(a(), b(), "view vs view", rp);
			mirror_laws(a, b(), "array vs view", rp);
			if constexpr(DD == 2) { mirror_laws(a[0], b[1], "row vs row", rp); mirror_laws(a.rotated()[1], b.rotated()[0], "column vs column", rp); }
		} }
		mc::R.add("partial_order_mirror_laws", g_po);
	}
}

int main(int argc, char** argv) {
	mc::Args args(argc, argv);
	bool thorough = args.get("tier", "quick") == "thorough";
	mc::set_deadline(static_cast<double>(args.geti("deadline", 3000)));
	std::string only = args.get("replay", "");
	auto body = [&](std::set<std::string> const&) {
		bool const wide = args.geti("wide", 0) != 0; long const shard = args.geti("shard", 0), nshards = std::max(1L, args.geti("nshards", 1));
		auto vals = values(thorough, wide);
		std::vector<RP> rps = {{R_ARRAY, R_ARRAY}, {R_ARRAY, R_REF}, {R_REF, R_ARRAY}, {R_REF, R_TRANSPOSED_STORAGE}, {R_TRANSPOSED_STORAGE, R_SUBBLOCK}, {R_SUBBLOCK, R_ARRAY}, {R_ARRAY, R_SUBBLOCK}, {R_SUBBLOCK, R_SUBBLOCK},
			{R_ARRAY, R_SHORT_ARRAY}, {R_SHORT_ARRAY, R_ARRAY}, {R_SHORT_VIEW, R_SUBBLOCK}, {R_SUBBLOCK, R_SHORT_VIEW}, {R_STATIC, R_ARRAY}, {R_STATIC, R_STATIC}, {R_REF, R_REF}, {R_TRANSPOSED_STORAGE, R_TRANSPOSED_STORAGE},
			{R_INNER_PADDED, R_INNER_PADDED}, {R_OUTER_PADDED, R_OUTER_PADDED}, {R_INNER_PADDED, R_ARRAY}, {R_OUTER_PADDED, R_SUBBLOCK}};
		if(D >= 3 && wide) { for(int k = 0; k < static_cast<int>(perms().size()); ++k) { int P = R_PERM0 + k; rps.push_back({P, R_ARRAY}); rps.push_back({R_REF, P}); rps.push_back({P, P}); rps.push_back({P, R_SUBBLOCK}); if(k + 1 < static_cast<int>(perms().size())) { rps.push_back({P, P + 1}); } } }
		long ai = -1;
		for(auto const& a : vals) { ++ai; if(ai % nshards != shard) { continue; } for(auto const& b : vals) {
			if(mc::past_deadline()) { mc::R.exhaustive = false; break; }
			++g_pairs; if(prod(a.ext) >= 1 && prod(b.ext) >= 1 && !(a.ext == b.ext && a.v == b.v)) { ++g_nontrivial; }
			for(auto const& rp : rps) {
				for(int cc = 0; cc < 4; ++cc) {
					Ctx c{&a, &b, rp.a, rp.b, (cc & 1) != 0, (cc & 2) != 0, false};
					if(!only.empty()) { std::string r = std::to_string(D) + "/" + vstr(a) + "/" + std::to_string(c.ra) + (c.ca ? "c" : "m") + "/" + vstr(b) + "/" + std::to_string(c.rb) + (c.cb ? "c" : "m"); if(r != only) { continue; } }
					mc::cur_set(std::string(rep_nm(rp.a)) + " vs " + rep_nm(rp.b), std::to_string(D) + "/" + vstr(a) + "/" + std::to_string(c.ra) + (c.ca ? "c" : "m") + "/" + vstr(b) + "/" + std::to_string(c.rb) + (c.cb ? "c" : "m"));
					g_pad = -9;
					with_rep(a, rp.a, [&](auto&& x) { g_pad = -8; with_rep(b, rp.b, [&](auto&& y) {
						if(c.ca && c.cb) { check_ops(std::as_const(x), std::as_const(y), c); }
						else if(c.ca) { check_ops(std::as_const(x), y, c); }
						else if(c.cb) { check_ops(x, std::as_const(y), c); }
						else { check_ops(x, y, c); }
					}); });
				}
			}
			if(mc::R.samples.size() < 4 && a.ext != b.ext && prod(a.ext) >= 2 && prod(b.ext) >= 2 && (g_pairs % 37) == 0) { mc::R.sample(mc::J().s("lhs", vstr(a)).s("rhs", vstr(b)).n("representation_pairs", static_cast<long long>(rps.size())).s("operators", "== != < <= > >= x constness of either side").str()); }
		} }
#ifdef CMP_FANCY
		mc::R.add("fancy_dereferences", fancy::g.deref);
		if(fancy::g.oob_deref || fancy::g.null_deref || fancy::g.null_arith) { mc::R.violation("D" + std::to_string(D) + "|fancy-pointer|provenance", mc::J().s("harness", "cmpmc").s("replay", "fancy").s("detail", fancy::g.first).str()); }
#endif
		(void)shard; if(wide && shard == 0 && only.empty()) { partially_ordered_t<D>(); nonbitwise_equality_t<D>(); }
		mc::R.add("evaluations", g_evals + g_po); mc::R.add("pairs", g_pairs); mc::R.add("distinct_nontrivial", g_nontrivial);
		mc::R.note("D=" + std::to_string(D) + ": logical values=" + std::to_string(vals.size()) + " ordered pairs=" + std::to_string(g_pairs) + " representation pairs=" + std::to_string(rps.size()) + " x4 constness" + (wide ? " (incl. every axis permutation of the storage)" : "") + (nshards > 1 ? " shard " + std::to_string(shard) + "/" + std::to_string(nshards) + " of the left operands" : ""));
		mc::R.emit(stdout);
	};
	if(!only.empty()) { std::set<std::string> none; body(none); std::printf("REPLAY %s (%ld operator evaluations)\n", mc::R.viol.empty() ? "OK" : "VIOLATION", g_evals); for(auto const& [k, v] : mc::R.viol) { std::printf("  %s %s\n", k.c_str(), v.second.substr(0, 300).c_str()); } return mc::R.viol.empty() ? 0 : 1; }
	return mc::supervise(body);
}
