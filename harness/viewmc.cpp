// C01 — view algebra.  BFS over view states from a set of roots; per-state oracle: shape queries and the address of every
// valid index tuple via four access paths against the affine reference model.
#define VM_CALL_MAXARGS 4
#define VM_CATEGORIES 1
#include "../engine/view_model.hpp"
#include "../engine/view_oracle.hpp"

using namespace vm;

template<int D, class Root>
static void run_root(Root& root, int const* data, idx N, std::vector<idx> const& sizes, std::string const& rootname, std::string const& prefix, Config const& cfg, std::set<std::string> const& skip) {
	MView m0 = root_model(sizes);
	long nontrivial = 0, st_count = 0;
	std::string rootclass = "D" + std::to_string(D);
	auto st = bfs(root, m0, cfg, skip, [&](auto&& v, MView const& m, Hist const& h) -> bool {
		mc::cur_phase("oracle");
		vo::Fail f = vo::check_view(v, m, data, N);
		if(!m.has_empty_dim() && m.num_elements() >= 2) { ++nontrivial; }
		mc::R.outcome(key_of(m));
		if(h.size() >= 2 && m.num_elements() >= 2 && N >= 6 && mc::R.samples.size() < 3 && (st_count++ % 97) == 0) {
			mc::R.sample(mc::J().s("root", rootname).s("trace", hist_str(h)).s("model_state", key_of(m)).n("index_tuples_checked", static_cast<long long>(m.has_empty_dim() ? 0 : m.num_elements())).str());
		}
		if(f.bad) {
			std::string lastop = h.empty() ? "root" : op_class(h.back());
			mc::R.violation(rootclass + "|" + lastop + "|" + f.oracle,
				mc::J().s("harness", "viewmc").s("replay", prefix + hist_str(h)).s("root", rootname).s("trace", hist_str(h)).s("oracle", f.oracle).s("detail", f.detail).s("model_state", key_of(m)).str());
			return false;
		}
		return true;
	}, prefix);
	mc::R.add("states", st.states); mc::R.add("transitions", st.transitions); mc::R.add("distinct_nontrivial", nontrivial);
	mc::R.add("index_tuples_checked", vo::g_tuples); vo::g_tuples = 0;
	mc::R.add("address_comparisons", vo::g_addr); vo::g_addr = 0;
	if(st.capped) { mc::R.exhaustive = false; }
	mc::R.note(rootname + ": completed_depth=" + std::to_string(st.completed_depth) + " states=" + std::to_string(st.states) + " transitions=" + std::to_string(st.transitions) + (st.capped ? " CAPPED" : ""));
}

#include "../engine/view_roots.hpp"

int main(int argc, char** argv) {
	mc::Args args(argc, argv);
	bool thorough = args.get("tier", "quick") == "thorough";
	Config cfg;
	cfg.maxdepth = static_cast<int>(args.geti("depth", thorough ? 5 : 3));
	cfg.max_states = args.geti("max_states", 3000000);
	cfg.menu0.call_full = true; cfg.menu0.call_maxargs = 4;
	cfg.menu.call_full = false; cfg.menu.call_maxargs = 2;
	cfg.full_call_depth = 1;
	return vr::main_roots(args, cfg, thorough, [](std::vector<idx> const& sizes, bool owning, Hist const& h) { return vr::replay_generic(sizes, owning, h, [](auto&& v, MView const& m, int const* data, idx N) {
		vo::Fail f = vo::check_view(v, m, data, N);
		if(f.bad) { std::printf("REPLAY VIOLATION oracle=%s detail=%s model=%s\n", f.oracle.c_str(), f.detail.c_str(), key_of(m).c_str()); return 1; }
		std::printf("REPLAY OK model=%s\n", key_of(m).c_str()); return 0;
	}); });
}
