"""Registry of checks: which harness binaries (jobs) decide which property, in which build configurations."""
from vcore import Job

CHECKS = {}


def ranks_jobs(harness, cfg, tier, ranks=(1, 2, 3, 4), extra_args=(), shards_thorough=4, extra_defs=()):
    jobs = []
    for r in ranks:
        n = shards_thorough if tier == "thorough" else 1
        for s in range(n):
            jobs.append(Job(harness, cfg=cfg, defs=["-DONLY_RANK=%d" % r] + list(extra_defs), args=["--tier=" + tier, "--shard=%d" % s, "--nshards=%d" % n] + list(extra_args)))
    return jobs


CHECKS["C01"] = dict(
    technique="explicit-state BFS over view states (bounded depth; states keyed by model state + real-layout fingerprint), every transition executed on the real typed view through its lvalue, rvalue and const overloads, lock-step affine reference model, all index tuples per state",
    title="view algebra",
    level="model_checking",
    engine="E1",
    claim=("Every sequence of view-forming operations up to the depth bound (quick 3, thorough 5) from every root shape is executed on the real views and compared, state by state and "
           "index tuple by index tuple, with the affine reference model; this is a complete enumeration within the bound, which is the right level for a universally quantified "
           "statement about compositions that tests only sample."),
    jobs=lambda tier: ranks_jobs("viewmc", "san", tier, extra_defs=["-DVM_CONST_ROOTS"]),
    rule=("breadth-first search over view states: state = (base offset, per-dimension (first,size,stride), read-only-type bit) reached by an operation history from a root "
          "array_ref/array (shapes incl. sizes 0 and 1, D=1..4, results up to D=5; every array_ref root also through a const reference, so that the read-only view family is explored from the root); alphabet = index, sliced(a,b), sliced(a,b,s), strided, dropped, taked, rotated, unrotated, "
          "transposed, ~, reversed, diagonal, partitioned, chunked, flatted, v(), call syntax with 1..4 index/range/all arguments (full product at the root, reduced menu deeper), "
          "every in-domain argument; for rank >= 3 every axis permutation of the root (composed from rotated/transposed/unrotated) is an additional root expanded one level; "
          "every transition is executed on the real view THREE times - on a named view (lvalue overload), on std::move(view) (&& overload) and on std::as_const(view) (const& overload, where its body compiles) - and the three results must be the same view; "
          "states are merged only when the model state AND a fingerprint of the real result (base displacement, stride/offset/nelems of every layout level) agree; intermediate operations of a history run on temporaries, as user code chains them; at every new state: size/sizes/extensions/num_elements/is_empty/strides vs the affine model, "
          "and the address of EVERY valid index tuple via brackets, call syntax, apply(tuple), cursor indexing and cursor += against root + model offset, inside the root's storage; "
          "broadcasted()[i] for i in {0,1,5} designates the source. distinct_nontrivial = distinct states that are non-empty views with >= 2 elements."),
    assumptions=["reference model engine/view_model.hpp (documented index mappings)", "g++ 12 -O0 with ASan+UBSan, assertions enabled",
                 "strides of dimensions of size <= 1 and index bases of empty dimensions are unobservable and not compared"],
)

CHECKS["C02"] = dict(
    technique="explicit-state BFS over view states; exhaustive positions x offsets x routes per state for every iterator family; address-level oracle",
    title="iterator / elements() random-access laws",
    level="model_checking",
    engine="E1",
    claim=("At every view state reached by the E1 search (quick depth 2, thorough depth 3) the random-access laws are checked for ALL positions 0..size and ALL in-range offsets, for "
           "begin/end, cbegin/cend, iterators of the const view, and elements() (mutable and const): positions are compared by dereferenced ADDRESS against the model, never by iterator "
           "equality alone. Complete enumeration of states x positions x offsets within the bound."),
    jobs=lambda tier: ranks_jobs("itermc", "san", tier, extra_defs=["-DVM_CONST_ROOTS"]),
    rule=("E1 breadth-first search over view states (same alphabet as C01, reduced call menu); at each new state, for every iterator family (iterator, const_iterator, iterator of const view, "
          "elements(), const elements()): for all p in [0,size], all k with p+k in [0,size]: ++/-- inverse (pre/post), (it+k)-k==it and same address, (it+k)-it==k, +=k;-=k returns to same "
          "address, < <= > >= == != consistent with k, it[k] is *(it+k), copied and ASSIGNED iterators (assignment over an iterator at another position) designate the same address and advance "
          "identically, converted const_iterator equals cbegin+p, *(begin+p) is v[first+p] (base and layout); elements(): k-th position, [k], front(), back() are the element at the k-th index "
          "tuple in canonical order computed by the model. distinct_nontrivial = distinct non-empty states with >= 2 elements."),
    assumptions=["reference model engine/view_model.hpp", "g++ 12 -O0, ASan+UBSan, assertions enabled", "iterators of two different views are never compared (out of domain)"],
)

CHECKS["C05"] = dict(
    technique="explicit-state BFS for state sets + exhaustive ordered pairs of equal-extent views x assignment forms; whole-buffer oracle",
    title="assignment through views",
    level="model_checking",
    engine="E1",
    claim=("All ordered (destination, source) pairs of equal-extent view states of two same-shaped roots (E1 state sets, depth 2; thorough adds the larger shapes and lifts the per-class cap) x 14 "
           "assignment forms are executed on the real views; the oracle compares the WHOLE destination and source buffers including guards with the model-computed expectation, so a write "
           "outside the view, a wrong order, a modified source or a rebound view is visible. Complete enumeration within the bound."),
    jobs=lambda tier: ranks_jobs("assignmc", "san", tier, shards_thorough=4) + [Job("movemc", cfg="san", args=["--tier=" + tier])],
    rule=("state sets from the E1 search (C01 alphabet, depth 2) on array_ref roots over guard buffers; pairs grouped by (rank, extents); forms: dst=src, dst=std::move(src), dst=+src, "
          "dst=array<short>, dst=array<short>(), dst.elements()=src.elements(), =std::move(src).elements(), dst={initializer list}, dst=std::vector (1-D), dst.fill(x), dst.swap(src), "
          "swap(dst,src), std::move(dst)=src, dst=src.element_moved(); expectation computed from the model's index->offset maps in canonical order. distinct_nontrivial = pairs whose "
          "destination has >= 2 elements; evaluations = (pair, form) executions. Move clause (harness movemc): the same pair enumeration over an element type with an observable moved-from state and 7 forms: "
          "plain and rvalue-view assignment must leave the source untouched (views are reference-like; sub-view expressions are always temporaries), dst=src.element_moved(), dst.elements()=src.element_moved().elements() and "
          "array(src.element_moved()) must move from exactly the viewed source elements, std::copy over the iterators of a moved view may move or copy but must not touch anything else."),
    assumptions=["destination and source live in different roots (disjoint elements, as the property requires)", "forms that materialise an owning temporary are applied only to sources without an empty dimension (owning arrays collapse leading sizes)",
                 "reference model engine/view_model.hpp", "g++ 12 -O0 ASan+UBSan, assertions enabled"],
)


def hist_jobs(prop, tier, cfg="san"):
    jobs = []
    for d in (1, 2, 3, 4):
        for e in (0, 1):
            depth = {"quick": {1: 3, 2: 3, 3: 3, 4: 3}, "thorough": {1: 5, 2: 4, 3: 4, 4: 4}}[tier][d]
            jobs.append(Job("histmc", cfg=cfg, defs=["-DHM_D=%d" % d, "-DHM_ELEM=%d" % e], args=["--tier=" + tier, "--prop=" + prop, "--depth=%d" % depth]))
    for d in ((2,) if tier == "quick" else (1, 2, 3)):   # third element kind: non-trivial default constructor, trivial destructor
        jobs.append(Job("histmc", cfg=cfg, defs=["-DHM_D=%d" % d, "-DHM_ELEM=2"], args=["--tier=" + tier, "--prop=" + prop, "--depth=%d" % (3 if tier == "quick" else 4)]))
    jobs.append(Job("zeromc", cfg=cfg, args=["--tier=" + tier, "--prop=" + prop]))   # dimensionality 0
    return jobs


def recycle_jobs(prop, tier):
    """E2 with the allocator's address policy set to 'hand a released block out again' (LIFO per byte size) and a non-initial root state; the default policy never repeats an address"""
    jobs = []
    pre = "--prefix=b=iota$3;swap(a,b)"
    if tier == "quick":
        grid = [(2, 0, 3, pre), (2, 0, 3, None), (1, 1, 3, pre)]
    else:
        grid = [(d, e, 4, px) for d in (1, 2, 3) for e in (0, 1) for px in (None, pre)]
    for (d, e, depth, px) in grid:
        jobs.append(Job("histmc", cfg="san", defs=["-DHM_D=%d" % d, "-DHM_ELEM=%d" % e, "-DHM_RECYCLE"], args=["--tier=" + tier, "--prop=" + prop, "--depth=%d" % depth] + ([px] if px else [])))
    return jobs


def pair_jobs(prop, tier, dims=(1, 2, 3, 4)):
    """C04: complete (destination, source) extensions grid per dimensionality x every value-semantic form (pairmc)"""
    jobs = []
    for d in dims:
        n = {4: 4}.get(d, 1) if tier == "quick" else {3: 2, 4: 8}.get(d, 1)
        for sh in range(n):
            jobs.append(Job("pairmc", cfg="san", defs=["-DPM_D=%d" % d], libs=["-ltbb"], args=["--tier=" + tier, "--prop=" + prop, "--shard=%d" % sh, "--nshards=%d" % n]))
    return jobs


def reext_jobs(tier, prop="C06", dims=(1, 2, 3, 4)):
    """C06: complete (old,new) extents grid per dimensionality (reextmc)"""
    jobs = []
    for d in dims:
        n = 1 if tier == "quick" or d < 4 else 4
        for sh in range(n):
            jobs.append(Job("reextmc", cfg="san", defs=["-DRX_D=%d" % d], args=["--tier=" + tier, "--prop=" + prop, "--shard=%d" % sh, "--nshards=%d" % n]))
    return jobs


PAIR_RULE = (" pairmc adds the COMPLETE grid of (destination, source) index-extension pairs per dimensionality 1..4 (same per-dimension menu as reextmc: empty, sizes 1..3, shifted index bases) x 15 forms "
             "(copy/move/converting/other-allocator-type assignment, assignment from a whole view and a const view, copy/move/converting/view construction, swap, member swap, a=+b, self-assignment, copy construction with an execution policy) x {int, tracked element, element with force_element_trivial_default_construction and a counted destructor}: "
             "destination extensions (sizes and index bases) and every element equal the source's, source unchanged or empty-valid-assignable after a move, no shared storage, no write-through, registry and ledger clean.")
RECYCLE_RULE = (" The address an allocation returns is an environment answer owned by the harness: besides the default policy (no address is ever handed out twice within a history) the search is repeated with "
                "the policy 'the most recently released block of the same byte size is handed out again', from the initial state and from a non-initial root (a filled, b empty), so that stale-pointer identity tests are reachable. "
                "The search key contains the hidden state of both arrays (all stored layout fields, base pointer null / live block / other), so value-equal pools with different hidden state are separate states.")
HIST_RULE = ("breadth-first search over operation histories of a pool of two owning arrays a, b (multi::array<T,D,ledger allocator>) plus an immutable source array; state = history replayed on fresh "
             "objects, deduplicated by (reference-model value of both slots, allocator ids, implementation strides); alphabet (76-106 letters per rank): a=b, b=a, a=std::move(b), b=std::move(a), a=a, "
             "swap(a,b), a.swap(b), copy/move/default construction, a=+b, element writes, every constructor form x shape menu (incl. empty shapes), a=view / Arr(view) / a=+view / a=const view for a menu of "
             "source views (whole, rotated, sub-block, strided, empty, flatted/partitioned), a=array<short> / view of it, nested initializer lists, reextent(x) / reextent(x,v) / std::move(a).reextent(x) for "
             "every shape, reshape, assign(first,last), clear, a={}; every transition runs in a forked child under ASan/UBSan with the live-object registry and allocation ledger on. "
             "distinct_nontrivial = transitions that changed the model state.")
HIST_ASSUME = ["reference model engine/hist_model.hpp (value = extents + row-major elements; index-space intersection for reextent)", "all allocator instances equal in this check (unequal instances are C10's business)",
               "for empty arrays only num_elements()==0, size()==0, is_empty() are asserted (the library collapses extents of empty arrays)", "g++ 12 -O0 ASan+UBSan, assertions enabled",
               "std::move(a).reextent(x) is modelled as NOT preserving elements when extents change (array.hpp, test/reextent.cpp say so)"]

CHECKS["C04"] = dict(
    technique="explicit-state BFS over operation histories of a pool of owning arrays (replay on fresh objects, forked batches, hidden state in the key, enumerated allocator address policy), lock-step value model + registry/ledger monitors; exhaustive (destination, source) extents-pair grid x all value-semantic forms",
    title="value semantics of owning arrays", level="model_checking", engine="E2",
    claim=("Every history of construct/copy/move/assign/swap/decay/element-write/reextent operations up to depth 3 (thorough 4-5) over the alphabet is executed on real arrays (D=1..4, tracked and trivial element "
           "types) and compared slot by slot with the value model after every step, plus storage disjointness, self-assignment and move/swap no-copy/no-allocation counters. Independence of copies is decided by "
           "continuing the history (element writes after copies), not by pointer inequality alone."),
    jobs=lambda tier: hist_jobs("C04", tier) + recycle_jobs("C04", tier) + pair_jobs("C04", tier), rule=HIST_RULE + RECYCLE_RULE + PAIR_RULE + " Reported for C04: violations of transitions whose last operation is a construct/copy/move/assign/swap/decay/element-write letter.", assumptions=HIST_ASSUME,
)
CHECKS["C06"] = dict(
    technique="explicit-state BFS over operation histories + exhaustive grid of every (old,new) index-extension pair per dimensionality x reextent forms x element kinds; index-space intersection reference model",
    title="reextent / clear / reshape / assign", level="model_checking", engine="E2",
    claim=("reextent(x), reextent(x,v), rvalue reextent, reshape, assign(first,last), initializer-list assignment, clear and ={} are applied from EVERY state reachable within the depth bound (so for all "
           "(old,new) extents pairs of the shape menu, interleaved with all other mutators) and compared with the index-space intersection model; reextent to the current extents must keep data_elements()."),
    jobs=lambda tier: hist_jobs("C06", tier) + reext_jobs(tier), rule=HIST_RULE + " Reported for C06: violations of transitions whose last operation is reextent/reshape/assign/clear/={}/={list}."
    " reextmc adds the COMPLETE grid of (old,new) index-extension pairs per dimensionality 1..4 (per-dimension menu: empty, sizes 1..3 (1-D: ..5), shifted index bases in 1-D/2-D; D=4 quick: sizes 1..3 + two empty shapes), "
    "x {reextent(x), reextent(x,fill), std::move(a).reextent(x)} x {int, Q (value-initialisation required), tracked element + ledger allocator}, and every chain old->mid->new in 1-D (2-D in thorough); oracle per "
    "pair: requested extensions, every index tuple of the intersection keeps its value, all others equal fill / a value-initialised element, same extents keep storage without allocating, live-object count and ledger clean. "
    "(The rvalue form keeps values only for unchanged extents: the library documents it as the contents-are-going-away form.)", assumptions=HIST_ASSUME,
)
CHECKS["C08"] = dict(
    technique="explicit-state BFS over operation histories with live-object registry, per-instance allocation ledger and pre-fill oracle on every transition",
    title="construct once / destroy once / storage returned", level="model_checking", engine="E2",
    claim=("The live-object registry (construct-over-live, use/assign/destroy of a dead object), the allocation ledger (unknown/double/size-mismatched deallocate, outstanding blocks/elements when the pool dies) "
           "and the 0xA5 pre-fill oracle (sizing constructors and reextent must not write trivially-default-constructible elements) are evaluated on every transition of the E2 search over the full alphabet."),
    jobs=lambda tier: hist_jobs("C08", tier) + recycle_jobs("C08", tier) + reext_jobs(tier, "C08", dims=(1, 2) if tier == "quick" else (1, 2, 3)) + pair_jobs("C08", tier, dims=(2,) if tier == "quick" else (1, 2, 3)) + alloc_jobs("C08", tier, combos=[(0, 1, 0, 0), (1, 0, 1, 0), (1, 1, 1, 1)]) + serial_hist_jobs("C08", tier), rule=HIST_RULE + RECYCLE_RULE + " The ledger keeps separate books per allocator instance: the search is repeated with a stateful allocator (three propagation-trait configurations, equal and unequal instances) so that a block released through the wrong instance is visible. Reported for C08: registry/ledger/leak oracles on any transition; for int elements the model holds the allocator's pre-fill pattern for never-written elements.", assumptions=HIST_ASSUME,
)


def serial_hist_jobs(prop, tier):
    """E2 histories with serialisation-load as a letter (tracked elements): every reachable prior state of the loading array, registry/ledger on"""
    return [Job("histmc", cfg="san", defs=["-DHM_D=%d" % d, "-DHM_ELEM=0", "-DHM_SERIAL"], libs=["-lboost_serialization"], args=["--tier=" + tier, "--prop=" + prop, "--depth=%d" % (3 if tier == "quick" else 4)])
            for d in ((2,) if tier == "quick" else (1, 2, 3))]


def alloc_jobs(prop, tier, cfg="san", combos=None):
    jobs = []
    combos = combos or [(ca, ma, s, 0) for ca in (0, 1) for ma in (0, 1) for s in (0, 1)] + [(0, 0, 0, 1), (1, 1, 1, 1)]
    dims = (2,) if tier == "quick" else (1, 2, 3)
    for d in dims:
        for (ca, ma, s, f) in combos:
            depth = 3 if tier == "quick" else (4 if d <= 2 else 3)
            jobs.append(Job("histmc", cfg=cfg, defs=["-DHM_D=%d" % d, "-DHM_ELEM=0", "-DHM_ALLOC", "-DHM_CA=%d" % ca, "-DHM_MA=%d" % ma, "-DHM_S=%d" % s, "-DHM_SOCCC=%d" % f],
                            args=["--tier=" + tier, "--prop=" + prop, "--depth=%d" % depth]))
    return jobs


def alloc_recycle_jobs(prop, tier):
    """allocator-identity runs with the address policy 'released blocks are handed out again' (stale-pointer identity tests between unequal allocators)"""
    jobs = []
    for d in ((1, 2) if tier == "quick" else (1, 2, 3)):
        for (ca, ma, s, f) in [(0, 1, 0, 0), (1, 1, 1, 0), (0, 0, 0, 0)]:
            depth = 3 if tier == "quick" or d == 3 else 4
            jobs.append(Job("histmc", cfg="san", defs=["-DHM_D=%d" % d, "-DHM_ELEM=0", "-DHM_ALLOC", "-DHM_CA=%d" % ca, "-DHM_MA=%d" % ma, "-DHM_S=%d" % s, "-DHM_SOCCC=%d" % f, "-DHM_RECYCLE"],
                            args=["--tier=" + tier, "--prop=" + prop, "--depth=%d" % depth]))
    return jobs


CHECKS["C10"] = dict(
    technique="explicit-state BFS over operation histories re-instantiated for every propagation-trait configuration, equal and unequal allocator instances, pmr resources; container-requirements model",
    title="allocator provenance and propagation", level="model_checking", engine="E2",
    claim=("The E2 history search is re-instantiated for a stateful allocator with every combination of propagate_on_container_{copy_assignment,move_assignment,swap} (plus select_on_container_copy_construction "
           "returning a fresh instance), with slots living on equal AND unequal instances; after every transition get_allocator() is compared with the container-requirements model, every owned block must have been "
           "produced by the allocator the slot reports (provenance), and every deallocate must go through an equal instance (ledger). The pmr clause is decided by the same kind of history search (harness pmrmc) over std::pmr::polymorphic_allocator arrays living on three counting "
           "memory resources: every block must return to the resource that produced it and get_allocator().resource() must follow the container requirements."),
    jobs=lambda tier: alloc_jobs("C10", tier) + alloc_recycle_jobs("C10", tier) + [Job("pmrmc", cfg="san", args=["--tier=" + tier])],
    rule=HIST_RULE + " C10 mode: allocator ids #1/#2 (default-constructed #0), 10 trait configurations, extra letters Arr(b,alloc#j), Arr(std::move(b),alloc#j), element-wise move assignment between unequal non-propagating "
         "instances; swap between unequal non-propagating instances is excluded (undefined for every allocator-aware container). For assignments from views/ranges/other element types the property does not fix the resulting "
         "allocator: the model adopts the observed id and only provenance and the ledger are checked.",
    assumptions=HIST_ASSUME[:1] + ["container-requirements allocator model (harness/histmc.cpp, HM_ALLOC)", "g++ 12 -O0 ASan+UBSan, assertions enabled"],
)


def fault_jobs(tier):
    jobs = []
    dims = (1, 2) if tier == "quick" else (1, 2, 3)
    for d in dims:
        for e in (0, 1):
            depth = 2 if tier == "quick" else (3 if d <= 2 else 2)
            jobs.append(Job("histmc", cfg="san", defs=["-DHM_D=%d" % d, "-DHM_ELEM=%d" % e, "-DINSTR_THROWING_MOVE"], args=["--tier=" + tier, "--prop=C09", "--mode=fault", "--depth=%d" % depth]))
    return jobs


CHECKS["C09"] = dict(
    technique="exhaustive single-fault placement (every allocation / element construction / element assignment) over every transition of the bounded history search",
    title="failures leave no leak and valid arrays", level="fault_enumeration", engine="E2",
    claim=("For every transition of the E2 history search (depth 2 quick / 3 thorough, D=1..2(3), tracked and trivial elements) EVERY single fault placement inside the operation is executed: the k-th allocation, element "
           "construction (default/copy/move/converting) or element assignment throws, for all k counted by an unarmed run of the same transition. Each placement runs in a forked child; afterwards: the exception reached the "
           "caller, registry/ledger are clean, every slot's extents agree with its live elements and owned block, nothing is outstanding beyond what the slots own, the slots can be assigned and compared, and nothing is "
           "outstanding when the pool dies. The no-fault clauses (same-extent assignment, move and swap of resizable arrays do not allocate) are decided by the plain E2 search; 'assignment through views does not allocate' by the C05 pair "
           "enumeration with a heap-allocation counter (sanitizer malloc hook) around every view = view / elements() = / fill / swap / element_moved form."),
    jobs=lambda tier: fault_jobs(tier) + hist_jobs("C09", tier) + alloc_jobs("C09", tier, combos=[(0, 0, 0, 0), (0, 1, 1, 0)]) + ranks_jobs("assignmc", "san", tier, ranks=(1, 2, 3), extra_args=["--prop=C09", "--depth=%d" % (1 if tier == "quick" else 2)], shards_thorough=1),
    rule=HIST_RULE + " Fault mode: for each explored transition (history h, op o) with N fault opportunities inside o, the N runs 'replay h unarmed, run o with opportunity k armed' are all executed. evaluations = fault placements "
         "executed; distinct_nontrivial = placements whose fault was actually reached and thrown. Violation key = element kind | operation class | fault kind {alloc, elem-ctor, elem-assign} | symptom.",
    assumptions=HIST_ASSUME[:1] + ["element move operations may throw in this build (INSTR_THROWING_MOVE) so that every element operation is a fault site", "a child killed by std::terminate is the observation 'terminate'", "g++ 12 -O0 ASan+UBSan"],
)

CHECKS["C17"] = dict(
    technique="exhaustive grid of element type x D x shape x archive x prior state, ordered pairs of equal-extent views from the E1 state sets, and serialisation-load as a letter of the history search",
    title="serialization round trips", level="exploration", engine="E2",
    claim=("Complete grid: element type {int,double,std::string,nested array<int,1>} x D=0..4 x shape menu (incl. zero extents) x archive kind {text,binary,xml} x prior state of the loading array "
           "{default, same extents, other count, permuted extents with the same count, cleared, moved-from, larger}; and all ordered pairs (saved view, loading view) of equal extents from the E1 state sets "
           "(depth 2 quick / 3 thorough) of two guard-buffer roots, where the loading root's whole buffer is compared with 'k-th canonical element <- k-th canonical element'."),
    jobs=lambda tier: [Job("sermc", cfg="san", args=["--tier=" + tier], libs=["-lboost_serialization"])] + serial_hist_jobs("C17", tier),
    rule=("flat enumeration of the grid above, every case executed on the real implementation with Boost.Serialization 1.83; oracle for arrays: extensions()==, element-wise ==, operator==; for views: whole "
          "destination buffer incl. guards vs model expectation, source unchanged. distinct_nontrivial = cases with >= 2 elements. The archive kind cycles over view pairs (all three kinds occur in every extents class)."),
    assumptions=["Boost.Serialization is the environment", "views of read-only type (const_subarray) cannot be saved on this tree (serialize() does not compile for them): not generated", "g++ 12 -O0 ASan+UBSan"],
)

CHECKS["C07"] = dict(
    technique="exhaustive enumeration of value pairs x representation pairs (incl. every axis permutation of the storage) x constness x operators against nested-sequence semantics; mirror laws on partially ordered elements; non-bitwise element equality",
    title="equality and ordering", level="exploration", engine="E4",
    claim=("Complete enumeration: every ordered pair of logical values over a small alphabet (D=0: {0,1,2}; D=1: all vectors of length 0..3 over {0,1,2}; D=2..4: all arrays of a shape menu over {0,1}, including "
           "pairs of different extents with equal flat contents and empty operands; D=4: all placements of one and of two non-trivial axes) x 20 representation pairs (owning array, static_array, array_ref, view of rotated storage, padded sub-block, blocks padded in one dimension only, array<short>, view "
           "of array<short>) plus, for D>=3, every non-identity axis permutation of the storage viewed back in logical order (5 pairs per permutation: vs array, array_ref, itself, padded sub-block, the next permutation) x constness of either side x the six operators, compared with nested-sequence semantics. Agreement with the model on all pairs implies irreflexivity, antisymmetry, transitivity and "
           "trichotomy, because the model is a strict weak order. An operator that is ill-formed for an operand pair is a finding (the property names the six operators)."),
    jobs=lambda tier: [Job("cmpmc", cfg="san", defs=["-DCMP_D=%d" % d], args=["--tier=" + tier, "--wide=1", "--shard=%d" % sh, "--nshards=%d" % n]) for d in (0, 1, 2, 3, 4) for n in ({3: 2, 4: 10}.get(d, 1),) for sh in range(n)],
    rule=("flat grid of (lhs value, rhs value, representation pair, constness pair, operator); oracle: == iff same extents and same elements, != its negation (required also for empty operands), < lexicographic over the "
          "leading dimension recursively with 'proper prefix is smaller', <= > >= derived; for empty operands only ==/!= consistency (and equality of identical empties). evaluations = operator evaluations; "
          "distinct_nontrivial = ordered pairs of distinct non-empty logical values."),
    assumptions=["nested-sequence reference semantics (harness/cmpmc.cpp m_eq/m_less)", "values are written into each representation by plain indexing (C01's business)", "g++ 12 -O0 ASan+UBSan"],
)

CHECKS["C16"] = dict(
    technique="compile-time explicit-state exploration of access paths (expression types x const-taint; template memoisation = visited set) + exhaustive compile probes of whole-view mutators, of a proxy-reference pointer type and of reference-returning projections",
    title="const-ness propagation", level="model_checking", engine="E3",
    claim=("Explicit-state exploration of the graph of access paths at compile time: a state is a real C++ expression type (with value category) plus a const-taint bit, a transition applies one of 48 accessors in "
           "unevaluated context, template instantiation memoisation is the visited set; from 10 roots per rank (array, array const, static_array, array_ref, views held by auto&&, auto& and auto const&) to depth 3 "
           "(thorough 4). Every element-reference/pointer state reached through a tainted path must be non-modifiable (safety); paths from mutable roots must not lose modifiability (completeness); structural "
           "clauses (no copy-construction/rebinding/resizing of views) are static probes. The compiler's type system evaluates every transition on the real headers."),
    jobs=lambda tier: [Job("typemc", cfg="dbg", defs=["-DTM_D=%d" % d, "-DTM_DEPTH=%d" % (3 if tier == "quick" else 4)], args=["--tier=" + tier]) for d in (1, 2, 3)],
    extra=lambda tier: __import__("probes").c16_probes(tier),
    rule=("states = (expression type, taint); accessors: [0], (0), (0,0), (_), ({0,1}), (), begin/end/cbegin/cend, *, it+0, it[0], ->, elements() and its begin/[0]/front/back, celements, home() and [0], front/back, "
          "base(), data_elements(), rotated/unrotated/transposed/~/sliced/strided/taked/dropped/reversed/chunked/diagonal/partitioned/flatted, std::as_const, .as_const(), std::move, unary + (clears taint: independent copy). "
          "CanonW(state) = a modifiable element is reachable by canonical element accessors only; a safety culprit is a tainted edge from a non-CanonW state to a CanonW state (or a const root that is CanonW); a "
          "completeness gap is an untainted edge from a CanonW state to a state with canonical evidence that is not CanonW. distinct_nontrivial = element-reference/pointer states."),
    assumptions=["g++ 12 type system", "members with deduced return types whose bodies do not compile for some rank are kept out by rank guards on the accessor (diagonal/flatted/transposed need D>=2)",
                 "whole-view mutators (assignment, fill, swap, elements()=, writes through begin/home/elements) on const paths are decided by separate compile probes (one translation unit each, -fsyntax-only): "
                 "every (mutator, path, const root) statement must be ill-formed, and is only counted when its mutable twin compiles"],
)

CHECKS["C03"] = dict(
    technique="exhaustive enumeration of algorithm x range kind x view x all small data assignments; differential against std:: algorithm on independent values",
    title="standard algorithms on array/view ranges", level="exploration", engine="E1",
    claim=("For each of the 20 listed algorithms x three range kinds (begin/end of 1-D views, begin/end of 2-D/3-D views whose dereference is a proxy sub-view, elements() of 2-D/3-D views) x a menu of views "
           "(rows, columns via rotated/transposed, diagonals, strided, sub-blocks, sub-blocks of rotated arrays, empty and one-element ranges) x ALL assignments of the viewed elements over a small alphabet "
           "(3^n for n<=5 scalars, 2^n otherwise) x all middle/nth positions and values, the algorithm runs on the real range and the same std:: algorithm runs on a vector of independent values; whole root "
           "buffers including guards are compared, so elements outside the view are checked unchanged."),
    jobs=lambda tier: [Job("algomc", cfg="san", defs=["-DALG_KIND=%d" % k], args=["--tier=" + tier]) for k in (0, 1, 2)],
    rule=("flat enumeration (range kind, view, data assignment, algorithm, position argument); oracle per algorithm class: full equality for sort/stable_sort/reverse/rotate/copy/copy_backward/move/swap_ranges/fill/transform, "
          "prefix [begin,returned) + untouched outside for unique/remove, postcondition + permutation + untouched outside for partition/nth_element/partial_sort, returned value/position for find/equal/is_sorted/accumulate/"
          "lexicographical_compare. evaluations = algorithm runs; distinct_nontrivial = (view, data) cases with >= 2 viewed scalars."),
    assumptions=["reference = libstdc++ algorithm on std::vector<std::vector<int>> (a scalar is a 1-vector; rows compare lexicographically)", "second range of two-range algorithms is the same view of a second root", "g++ 12 -O0 ASan+UBSan, assertions enabled"],
)

CHECKS["C19"] = dict(
    technique="explicit-state BFS over view states from re-based roots with a positional twin model; exhaustive (old,new) index-extension pairs for reextent",
    title="index bases are transparent", level="model_checking", engine="E1",
    claim=("The E1 view-state search is run from re-based roots (array_ref over explicit index extensions with firsts in {-1,0,2} per dimension, D=1..4) with reindexed/blocked/stenciled added to the alphabet; every "
           "index-valued argument is expressed in the view's own reported index space and the model is the positionally identical zero-based twin. At every state: element addresses position-wise through all access "
           "paths, begin/end and elements() laws, +view (values and extensions), equality of a copy, and assignment into the same view of a twin root (whole-buffer comparison)."),
    jobs=lambda tier: ranks_jobs("basemc", "san-nd", tier, shards_thorough=2) + ranks_jobs("basemc", "san", tier, ranks=(1, 2, 3), extra_args=["--depth=%d" % (1 if tier == "quick" else 2)], shards_thorough=1),
    rule=("E1 breadth-first search (depth 2 quick / 3 thorough) with the model adopting the reported first index of every non-empty result dimension (the index base of a RESULT is not documented) while sizes, "
          "strides and element identity are checked position-wise; the primary build has assertions disabled (-DNDEBUG + ASan/UBSan) so that the reference model, not the library's own asserts, is the oracle; "
          "the same search (one level shallower) and the reextent grid are repeated in the assertion-enabled build, where any library assertion on these valid programs is a violation; violating states are not expanded. distinct_nontrivial = non-empty states with >= 2 elements."),
    assumptions=["reference model engine/view_model.hpp with per-dimension index base", "member_cast/scale on re-based layouts asserts offset==0 (TODO in the library): not generated", "g++ 12 -O0 -DNDEBUG ASan+UBSan"],
)


def c20_jobs(tier):
    jobs = []
    # (b) invalid uses die by a library assertion first
    jobs += ranks_jobs("deathmc", "san", tier, shards_thorough=2)
    # (a) the valid programs of C01..C07 in the three build configurations: assertions on (no sanitizer), -DNDEBUG, -DBOOST_MULTI_ASSERT_DISABLE.
    for cfg in ("dbg", "rel", "noassert"):
        ranks = (2, 3) if tier == "quick" else (1, 2, 3, 4)
        jobs += ranks_jobs("viewmc", cfg, tier, ranks=ranks, extra_args=["--depth=%d" % (2 if tier == "quick" else 3)], shards_thorough=1)
        jobs += ranks_jobs("itermc", cfg, tier, ranks=(2,) if tier == "quick" else (1, 2, 3), extra_args=["--depth=%d" % (1 if tier == "quick" else 2)], shards_thorough=1)
        jobs += ranks_jobs("assignmc", cfg, tier, ranks=(2,) if tier == "quick" else (1, 2, 3), extra_args=["--depth=1"], shards_thorough=1)
        for d, e in ((2, 0),) if tier == "quick" else ((1, 0), (2, 0), (2, 1), (3, 0)):
            jobs.append(Job("histmc", cfg=cfg, defs=["-DHM_D=%d" % d, "-DHM_ELEM=%d" % e], args=["--tier=" + tier, "--prop=all", "--depth=2"]))
        for d in ((2, 3) if tier == "quick" else (0, 1, 2, 3, 4)):
            jobs.append(Job("cmpmc", cfg=cfg, defs=["-DCMP_D=%d" % d], args=["--tier=quick"]))
        for k in ((2,) if tier == "quick" else (0, 1, 2)):
            jobs.append(Job("algomc", cfg=cfg, defs=["-DALG_KIND=%d" % k], args=["--tier=quick"]))
    return jobs


CHECKS["C20"] = dict(
    technique="explicit-state BFS supplies states; every out-of-range index / mismatched-extent assignment probe in a forked child; the C01-C07 explorers re-run in three build configurations",
    title="debug contracts", level="model_checking", engine="E1",
    claim=("(b) At every E1 view state (depth 1 quick / 2 thorough, D=1..4 roots on exactly-sized heap storage) every out-of-range index (first-1 and last in each dimension, through [] and through call syntax, followed "
           "by a READ) and every assignment from a source whose extents differ in one dimension or are permuted with equal count (5 assignment forms) is executed in a forked child of the assertion-enabled ASan build and must "
           "die by an assertion located in include/boost/multi with no sanitizer report before it. (a) The explorers of C01-C07 are re-run in three build configurations (assertions on, -DNDEBUG, -DBOOST_MULTI_ASSERT_DISABLE): "
           "any library assertion on those valid programs kills the explorer (reported with the trace), and every configuration must agree with the same configuration-independent reference model, hence with each other."),
    jobs=c20_jobs,
    ignore_keys=["*|does-not-compile", "completeness|*"],   # ill-formed expressions are C07's / C16's findings, not a debug-contract matter
    rule=("E1 breadth-first search supplies the states; per state 4*D index probes and (2*D+2) x 5 assignment probes, one forked child each; outcome classes: assertion (required) | survived | sanitizer-first | other-signal | "
          "foreign-assertion. For (a): states/transitions of the re-run explorers are added to the totals. distinct_nontrivial = non-empty states probed."),
    assumptions=["assigning flat elements() ranges of equal length is valid whatever the extents (only a different element count is probed there)", "index bases of empty dimensions are unobservable: empty views are not probed",
                 "other contracts (partitioned/chunked with a non-divisor, dropped/taked beyond size, strided with a non-divisor) are not promised by the property and not decided"],
)

CHECKS["C12"] = dict(
    technique="explicit-state BFS over view states (mutable and const roots) x projections x one more view operation x all index tuples; addresses/values from the model's offsets",
    title="projection views", level="model_checking", engine="E1",
    claim=("At every E1 view state (depth 2 quick / 3 thorough; roots of int and of struct{int a,b,c} elements, D=1..3, reached through mutable AND const roots) every projection is applied and checked at EVERY index tuple "
           "through call syntax and brackets: element_transformed with a by-value function (value = f(source) at access time: the source is modified between two reads) and with reference-returning functions (address identity, "
           "write-through), static_array_cast<T, T const*>, const_array_cast, as_const (address identity, const elements), member_cast of two members (address of that member), same-size reinterpret_array_cast<U>() and "
           "reinterpret_array_cast<U>(n) (trailing dimension over the element's bytes); each projection is composed with one more view operation (rotated, sliced, index, transposed, ()) and an array is constructed from it "
           "(and from a view of convertible element type) with extents and element-wise values compared."),
    jobs=lambda tier: [Job("projmc", cfg="san-nd", defs=["-DONLY_RANK=%d" % r, "-DPJ_ELEM=%d" % e], args=["--tier=" + tier]) for r in (1, 2, 3) for e in (0, 1)],
    extra=lambda tier: __import__("probes").c12_probes(tier),
    rule=("E1 breadth-first search supplies (real view, model) pairs; per state and projection all index tuples are enumerated; the model gives the source offset of each tuple, so expected values/addresses come from the "
          "root buffer, not from the library. Built with -DNDEBUG + ASan/UBSan (the model is the oracle). distinct_nontrivial = non-empty states with >= 2 elements."),
    assumptions=["member_cast / reinterpret_array_cast / static_array_cast on views whose element pointer is pointer-to-const (some const paths) do not compile on this tree: not generated (api gap)",
                 "layout scaling of re-based sources asserts offset==0 (library TODO): sources are zero-based", "g++ 12 -O0 -DNDEBUG ASan+UBSan"],
)


def c11_jobs(tier):
    jobs = []
    ranks = (1, 2, 3) if tier == "quick" else (1, 2, 3, 4)
    jobs += ranks_jobs("viewmc", "san", tier, ranks=ranks, extra_defs=["-DVM_FANCY"], extra_args=["--depth=%d" % (3 if tier == "quick" else 4)], shards_thorough=2)
    jobs += ranks_jobs("itermc", "san", tier, ranks=ranks, extra_defs=["-DVM_FANCY"], shards_thorough=2)
    jobs += ranks_jobs("assignmc", "san", tier, ranks=(1, 2, 3), extra_defs=["-DVM_FANCY"], extra_args=["--depth=%d" % (1 if tier == "quick" else 2)], shards_thorough=2)
    for d in ((1, 2) if tier == "quick" else (1, 2, 3)):
        for e in (0, 1):
            jobs.append(Job("histmc", cfg="san", defs=["-DHM_D=%d" % d, "-DHM_ELEM=%d" % e, "-DHM_FANCY"], args=["--tier=" + tier, "--prop=all", "--depth=%d" % (3 if tier == "quick" else 4)]))
    for d in (1, 2, 3):
        jobs.append(Job("cmpmc", cfg="san", defs=["-DCMP_D=%d" % d, "-DCMP_FANCY"], args=["--tier=" + tier]))
    # the fault enumeration of C09 over the fancy-pointer allocator (generic-allocator code paths of uninitialized_copy/fill/value-construct and their rollbacks differ from std::allocator's)
    for d in ((1, 2) if tier == "quick" else (1, 2, 3)):
        jobs.append(Job("histmc", cfg="san", defs=["-DHM_D=%d" % d, "-DHM_ELEM=0", "-DHM_FANCY", "-DINSTR_THROWING_MOVE"], args=["--tier=" + tier, "--prop=all", "--mode=fault", "--depth=%d" % (2 if tier == "quick" or d == 3 else 3)]))
    return jobs


CHECKS["C11"] = dict(
    technique="the explorers of C01/C02/C05/C04/C06/C08/C07 re-instantiated over a provenance-tracking user-defined pointer; same reference models",
    title="independence of the pointer type", level="model_checking", engine="E1",
    claim=("The explorers of C01 (view algebra), C02 (iterator laws), C05 (assignment through views), C04/C06/C08 (histories of owning arrays) and C07 (comparisons) are re-instantiated over fancy::ptr<T>, a minimal user-defined "
           "random-access pointer (no implicit conversion to or from raw pointers, proxy-free references) that carries the provenance [lo,hi) of its storage: array_ref<T,D,fancy::ptr<T>> roots for the view explorers and an "
           "allocator whose pointer type is fancy::ptr<T> for the owning-array histories. Every state/transition is compared with the SAME reference model as the raw-pointer run of the respective check, so equal verdicts mean "
           "element-for-element equal observations; in addition every dereference outside the storage the array owns or was given, and every use of a null fancy pointer, is counted and must be zero. Instantiating the "
           "whole alphabet also decides the 'uses only that type's own arithmetic' clause: any reliance on raw-pointer convertibility would not compile."),
    jobs=c11_jobs,
    equal_verdicts_with=["C09"],   # the fault enumeration over the fancy-pointer allocator must fail exactly where the raw-pointer run (C09) fails: those classes are C09's known findings
    ignore_keys=["*|ordering-between-different-element-types|does-not-compile", "*|ordering-between-different-pointer-types|does-not-compile", "D0|*owning-0D-array-operand*"],
    rule=("same state spaces, alphabets and oracles as C01/C02/C05/C04/C06/C08/C07 (see their rules) with the element pointer replaced; provenance counters reported as fancy_dereferences / violations 'fancy-pointer|...'. "
          "distinct_nontrivial as in the respective explorers."),
    assumptions=["engine/fancy_ptr.hpp is a conforming random-access pointer-like type with pointer_traits rebind", "ordering operators between operands of DIFFERENT pointer types are not promised (==/!= are, and are checked)",
                 "harness-side address comparison uses std::addressof(*p) / a harness-only accessor of fancy::ptr"],
)


def sharded(harness, tier, n=16, cfg="san", libs=(), cxx=None, extra_args=(), defs=()):
    return [Job(harness, cfg=cfg, defs=list(defs), libs=list(libs), cxx=cxx, args=["--tier=" + tier, "--shard=%d" % i, "--nshards=%d" % n] + list(extra_args)) for i in range(n)]


CHECKS["C14"] = dict(
    technique="exhaustive configuration-grid enumeration with known-factor / reconstruction oracles; compile probes for the headers",
    title="LAPACK adaptor", level="exploration", engine="E4",
    claim=("Complete configuration grid for potrf, geqrf and gesvd (two call forms): element types x sizes 0/1..4 x six matrix layouts (owning, row-major contiguous, row-major padded block, column-major contiguous, "
           "column-major padded block, inner stride 2) x vector layouts x triangle selection x ALL small integer factors / matrices of the stated families (potrf: every unit-or-2-diagonal factor with 0/1 entries, plus "
           "every position of a non-positive pivot; geqrf/gesvd: all matrices over {-1,0,1} up to 6 entries). Each configuration is executed on the real adaptor inside guarded stores; outcomes: correct (exact factor / "
           "reconstruction within 64 eps), rejected (exception or assertion located in boost/multi), anything else is a violation; rejecting a layout the property names as supported is a violation too. "
           "syev cannot be exercised: its header does not compile on this tree (decided by a compile probe, reported as a known finding)."),
    jobs=lambda tier: sharded("lapackmc", tier, libs=["-lopenblas", "-llapack"]),
    extra=lambda tier: __import__("probes").c14_probes(tier),
    rule=("flat enumeration of (routine, element type, layouts, sizes, triangle, matrix); see notes/C14.md for the exact grid and counts; distinct_nontrivial = configurations with all sizes >= 1; "
          "violation key = form | element type | operand layouts | size classes | variant | symptom."),
    assumptions=["the installed LAPACK/OpenBLAS are the environment of the adaptor", "oracles are written in the harness (known Cholesky factor, Householder reconstruction, U*diag(s)*VT)", "g++ 12 -O0 ASan+UBSan, assertions enabled; OPENBLAS_NUM_THREADS=1"],
)

CHECKS["C15"] = dict(
    technique="exhaustive configuration-grid enumeration; each configuration decided on the complete basis of the input space against the direct DFT",
    title="FFTW adaptor", level="exploration", engine="E4",
    claim=("Complete grid: D=1..3 (thorough adds D=4) x all extents over {1..4} ({1..5} thorough) x ALL 2^D masks of transformed dimensions x both signs x 49 ordered (input layout, output layout) pairs out-of-place + 7 layouts "
           "in-place (contiguous, rotated, unrotated, transposed, padded sub-block, strided-by-2 block, sub-block of rotated). Because the DFT is linear, each configuration is decided on the COMPLETE BASIS (delta_k and i*delta_k for "
           "every position k of the input view) against a direct O(N^2) evaluation of the unnormalised DFT along exactly the masked dimensions (exact == when all transformed extents are 1, 2 or 4, else 64*eps*N); plus a dense integer "
           "input through dft_forward/dft_backward and the round trip = N_transformed * x; a distinct input must be bit-identical afterwards, output guards and sub-block padding must keep their sentinels."),
    jobs=lambda tier: sharded("fftmc", tier, libs=["-lfftw3"]),
    rule=("flat enumeration of (D, extents, mask, sign, input layout, output layout, in-place or not), each group in a forked child; see notes/C15.md for counts; evaluations = configurations; distinct_nontrivial = configurations with "
          "at least one transformed extent >= 2. Outcome classes: correct | rejected (assertion in boost/multi) | violation."),
    assumptions=["FFTW3 with FFTW_ESTIMATE is the environment", "operands are array_ref views inside guarded stores (owning fftw::array cannot carry guards; same base()/layout() path)", "g++ 12 -O0 ASan+UBSan, assertions enabled"],
)

CHECKS["C13"] = dict(
    technique="exhaustive configuration-grid enumeration (operation x layouts x sizes x scalars x element types) against an exact integer reference; outcome classification in forked children",
    title="BLAS adaptor", level="exploration", engine="E4",
    claim=("Complete configuration grid over the BLAS adaptor: gemm (in-place, assigned/added lazy range, new array), gemv, dot (three forms), axpy, scal, copy, swap, nrm2, asum, iamax, herk, syrk, trsm (side x fill x diag) x element "
           "types (quick: double, complex<double>; thorough: all four) x per-operand layout variants (plain, transposed storage, padded sub-block, padded sub-block of transposed storage, conjugated / hermitised of each, also as "
           "output; vectors: unit stride, stride 2, matrix column) x ALL sizes with m,k,n in {0,1,2} (thorough {0..3}) x scalars {0,1,2} (+ i, 1+2i for complex), on exactly representable integer data so the naive reference is exact "
           "and the comparison is ==; the whole grid is run a second time with every matrix operand view carrying non-zero index bases (reindexed(1,2)). Each configuration: output equals the reference, inputs unchanged, all guard/padding cells of every store unchanged; outcomes correct | rejected (exception or assertion in boost/multi) | violation."),
    jobs=lambda tier: sharded("blasmc", tier, libs=["-lopenblas"]) + sharded("blasmc", tier, libs=["-lopenblas"], extra_args=["--rebase=1"]),
    rule=("flat enumeration, see notes/C13.md for the grid and counts (quick 1.6e6, thorough 4.0e6 configurations); a failed library assertion is intercepted inside the child (__assert_fail interposed) and counted as 'rejected' iff it is "
          "located under include/boost/multi; violation key = operation form | element type | layout class of each operand | size class per dimension | scalar class | coarse symptom. distinct_nontrivial = configurations with all sizes >= 1."),
    assumptions=["OpenBLAS is the environment (OPENBLAS_NUM_THREADS=1)", "forms that do not instantiate on this tree (gemm on complex<float>, iamax without NDEBUG, ...) are excluded at compile time and listed in a run note",
                 "the several thousand failing classes of the unchanged tree reduce to five root causes (notes/C13.md) and are listed in known_findings_C13.json"],
)

CHECKS["C18"] = dict(
    technique="explicit-state BFS over view states; per state and per ordered state pair MPI_Pack/MPI_Unpack against the model's canonical order; PMPI datatype ledger",
    title="MPI messages", level="model_checking", engine="E1",
    claim=("Every E1 view state (depth 2 quick / 3 thorough, array_ref roots D=1..4, int and double) is turned into the adaptor's (buffer, count, datatype) messages (message(elements), skeleton(layout), message(base, skeleton), "
           "datatype(), create_subarray, data(begin) with count 1); each is MPI_Pack-ed on MPI_COMM_SELF and the packed bytes are compared with the model's canonical-order element sequence (count, order, nothing else); for ordered "
           "pairs (source state, destination state of another root) with equal element counts the packed source is MPI_Unpack-ed through the destination message and the destination's WHOLE guard buffer is compared with "
           "'k-th canonical element <- k-th canonical element', source and bystander stores unchanged. A PMPI ledger (MPI_Type_* and MPI_Pack/Unpack interposed) checks committed-before-use, freed exactly once, no leak when the message dies."),
    jobs=lambda tier: sharded("mpimc", tier, cxx="mpicxx"),
    rule=("E1 breadth-first search supplies the states (same alphabet as C01); single-state probes for every state, pair probes for every source and destination state of an element-count class with the pair product capped per class "
          "(cap reported in the notes of the run: 24 quick / 48 thorough; every state still takes part); each batch runs in a forked child (singleton MPI_Init, no mpiexec). distinct_nontrivial = configurations with >= 2 elements."),
    assumptions=["Open MPI is the environment; messages are checked through MPI_Pack/MPI_Unpack on MPI_COMM_SELF (no second process)", "read-only view types are used only as sources", "mpicxx (g++ 12) -O0 ASan+UBSan, assertions enabled"],
)
