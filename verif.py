#!/usr/bin/env python3
"""Driver for the bounded-exhaustive (model checking) checks of correaa/boost-multi.

  verif.py setup
  verif.py check <ID> --tier quick|thorough
  verif.py replay <replay.json>
  verif.py list

Every check (re)builds its harnesses from /repo's *current working tree* (content-addressed cache under build/),
runs the explorer shards in parallel, classifies violations against known_findings.json, writes
evidence/<ID>.json and prints `VIOLATION property=<ID> replay=<path>` (exit 1) for anything not listed.
"""
import concurrent.futures as cf
import fnmatch
import hashlib
import json
import os
import re
import subprocess
import sys
import time





NCPU = os.cpu_count() or 8

sys.path.insert(0, os.path.dirname(os.path.abspath(__file__)))
from vcore import Job, CONFIGS, tree_hash, sh, HERE, REPO, INC, BUILD  # noqa: E402,F401
from checks import CHECKS  # noqa: E402


def build(job):
    out = job.bin_path()
    if os.path.exists(out):
        return out, None
    os.makedirs(os.path.dirname(out), exist_ok=True)
    cxx, flags, libs = job.build_spec()
    src = os.path.join(HERE, "harness", job.harness + ".cpp")
    tmp = out + ".tmp%d" % os.getpid()
    cmd = [cxx] + flags + [src, "-o", tmp] + libs
    r = sh(cmd)
    if r.returncode != 0:
        return None, " ".join(cmd) + "\n" + r.stderr[-20000:]
    os.replace(tmp, out)
    return out, None


def prune_build_cache(keep=400, min_age_s=6*3600):
    """keep the build cache bounded: only directories that are BOTH beyond the newest `keep` and older than `min_age_s` are removed
    (so that concurrently running checks never lose a binary they just built)"""
    if not os.path.isdir(BUILD):
        return
    ds = [os.path.join(BUILD, d) for d in os.listdir(BUILD) if len(d) == 20]
    ds.sort(key=lambda d: os.path.getmtime(d))
    now = time.time()
    for d in ds[:-keep] if len(ds) > keep else []:
        if now - os.path.getmtime(d) > min_age_s:
            sh(["rm", "-rf", d])


def run_job(job, binpath, deadline_s):
    env = dict(os.environ)
    env.update({"OPENBLAS_NUM_THREADS": "1", "OMP_NUM_THREADS": "1", "OMPI_ALLOW_RUN_AS_ROOT": "1", "OMPI_ALLOW_RUN_AS_ROOT_CONFIRM": "1",
                "ASAN_OPTIONS": "detect_leaks=0:abort_on_error=1:handle_abort=0", "UBSAN_OPTIONS": "print_stacktrace=0:halt_on_error=1:abort_on_error=1"})
    env.update(job.env)
    t0 = time.time()
    args = [binpath] + job.args + ["--deadline=%d" % max(5, int(deadline_s))]
    try:
        r = subprocess.run(args, stdout=subprocess.PIPE, stderr=subprocess.PIPE, text=True, env=env, timeout=deadline_s + 120, errors="replace")
        rc, out, err = r.returncode, r.stdout, r.stderr
    except subprocess.TimeoutExpired as e:
        rc, out, err = -999, (e.stdout or b"").decode(errors="replace") if isinstance(e.stdout, bytes) else (e.stdout or ""), "driver timeout"
    return dict(job=job, rc=rc, out=out, err=err, wall=time.time() - t0)


def load_known():
    """known_findings.json plus any known_findings_<ID>.json (large per-property lists are kept in their own file)"""
    import glob
    out = {"known": [], "fixed": []}
    for p in sorted(glob.glob(os.path.join(HERE, "known_findings*.json"))):
        k = json.load(open(p))
        out["known"].extend(k.get("known", []))
        out["fixed"].extend(k.get("fixed", []))
    return out


def sanitize(s):
    t = s.replace("<", "lt").replace(">", "gt").replace("!", "not")
    return re.sub(r"[^A-Za-z0-9_.=-]+", "_", t)[:90] + "_" + hashlib.sha1(s.encode()).hexdigest()[:8]


def check(pid, tier):
    t0 = time.time()
    spec = CHECKS[pid]
    budget = spec.get("budget", {}).get(tier, 540 if tier == "quick" else 3300)
    jobs = spec["jobs"](tier)
    seed = int(os.environ.get("VERIF_SEED", "0") or 0)
    os.makedirs(BUILD, exist_ok=True)
    prune_build_cache()
    violations = {}   # key -> dict(rec..., job)
    stats = {}
    samples, notes = [], []
    exhaustive = True
    # ---- build (parallel, deduplicated)
    uniq = {}
    for j in jobs:
        uniq.setdefault(j.bin_path(), j)
    built = {}
    with cf.ThreadPoolExecutor(max_workers=min(NCPU, 12)) as ex:
        futs = {ex.submit(build, j): p for p, j in uniq.items()}
        for f in cf.as_completed(futs):
            built[futs[f]] = f.result()
    alt = os.path.realpath(REPO) != "/repo"   # scratch-copy runs (mutant demonstrations) never touch the registered evidence
    out_root = os.path.join(BUILD, "alt_out") if alt else HERE
    replay_dir = os.path.join(out_root, "replays", pid)
    os.makedirs(replay_dir, exist_ok=True)
    for old in os.listdir(replay_dir):
        if old.endswith(".json"):
            os.unlink(os.path.join(replay_dir, old))
    for p, (binp, errtxt) in built.items():
        if binp is None:
            j = uniq[p]
            key = "compile|" + j.harness + "|" + ",".join(j.defs)
            first_err = next((l for l in errtxt.splitlines() if "error" in l), "compile failed")
            violations[key] = dict(count=1, rec=dict(kind="compile", harness=j.harness, cfg=j.cfg, defs=j.defs, first_error=first_err, log=errtxt[-6000:]), job=j)
    t_build = time.time() - t0
    # ---- run
    runnable = [j for j in jobs if built[j.bin_path()][0] is not None]
    results = []
    evals_total = [0]
    with cf.ThreadPoolExecutor(max_workers=NCPU) as ex:
        futs = []
        for j in runnable:
            remaining = budget - (time.time() - t0)
            futs.append(ex.submit(run_job, j, built[j.bin_path()][0], max(10, remaining)))
        for f in futs:
            results.append(f.result())
    for r in results:
        j = r["job"]
        got_stats = False
        for line in r["out"].splitlines():
            parts = line.split("\t")
            if parts[0] == "V" and len(parts) >= 3:
                key = parts[1]
                try:
                    rec = json.loads(parts[2])
                except Exception:
                    rec = {"count": 1, "rec": {"raw": parts[2][:2000]}}
                if key in violations:
                    violations[key]["count"] += rec.get("count", 1)
                else:
                    violations[key] = dict(count=rec.get("count", 1), rec=rec.get("rec"), job=j)
            elif parts[0] == "S" and len(parts) >= 2:
                got_stats = True
                try:
                    s = json.loads(parts[1])
                except Exception:
                    continue
                evals_total[0] += int(s.get("evaluations", s.get("transitions", s.get("states", 0))) or 0)
                for k, v in s.items():
                    if k == "evaluations":
                        continue
                    if k == "samples":
                        samples.extend(v)
                    elif k == "notes":
                        notes.extend(v)
                    elif k == "exhaustive":
                        exhaustive = exhaustive and bool(v)
                    elif isinstance(v, (int, float)) and not isinstance(v, bool):
                        stats[k] = stats.get(k, 0) + v
        if r["rc"] != 0 or not got_stats:
            key = "harness-failure|" + j.harness + "|rc=" + str(r["rc"])
            violations[key] = dict(count=1, rec=dict(kind="harness-failure", rc=r["rc"], stderr=r["err"][-3000:], stdout_tail=r["out"][-1000:]), job=j)
    # ---- python-side probes (compile probes etc.)
    if "extra" in spec:
        ev_viol, ev_stats, ev_samples, ev_notes = spec["extra"](tier)
        for k, rec in ev_viol.items():
            violations[k] = dict(count=1, rec=rec, job=Job("probe", cfg="dbg"))
        for k, val in ev_stats.items():
            stats[k] = stats.get(k, 0) + val
        samples.extend(ev_samples)
        notes.extend(["vacuous control: " + x for x in ev_notes])
    # ---- keys that are another property's business (documented per check)
    for pat in spec.get("ignore_keys", []):
        for k in [k for k in violations if fnmatch.fnmatchcase(k, pat)]:
            del violations[k]
    # ---- differential clause (C11): a verdict class that the raw-pointer run of another property also produces (its known findings) is "the same observable result"
    known = load_known()
    for other in spec.get("equal_verdicts_with", []):
        ok_keys = [k["key"] for k in known.get("known", []) if k["property"] == other]
        same = [k for k in violations if any(k == o or ("*" in o and fnmatch.fnmatchcase(k, o)) for o in ok_keys)]
        for k in same:
            del violations[k]
        if same:
            notes.append("%d failing classes are identical to known findings of %s on raw pointers (equal verdicts; reported there, not here)" % (len(same), other))
    # ---- classify
    kn = [k for k in known.get("known", []) if k["property"] == pid]
    new, seen_known = [], []
    for key, v in sorted(violations.items()):
        hit = None
        for k in kn:
            if k["key"] == key or ("*" in k["key"] and fnmatch.fnmatchcase(key, k["key"])):
                hit = k
                break
        j = v["job"]
        rp = dict(property=pid, key=key, count=v["count"], rec=v["rec"], harness=j.harness, cfg=j.cfg, defs=j.defs, libs=j.libs, cxx=j.cxx, args=j.args,
                  replay_arg=(v["rec"] or {}).get("replay") if isinstance(v["rec"], dict) else None)
        path = os.path.join(replay_dir, ("known_" if hit else "viol_") + sanitize(key) + ".json")
        with open(path, "w") as fh:
            json.dump(rp, fh, indent=1)
        if hit:
            seen_known.append((hit, path))
        else:
            new.append((key, path))
    # ---- evidence
    level = spec["level"]
    cov = dict(stats)
    cov.setdefault("states", 0)
    cov.setdefault("transitions", 0)
    if level == "model_checking":
        cov["traces_validated_against_impl"] = cov.get("traces_validated_against_impl", cov.get("transitions", 0))
        cov["states"] = max(cov["states"], 0)
    cov["evaluations"] = int(evals_total[0] + cov.get("compile_probes", 0))   # per job: its own "evaluations" if it reports one, else its transitions; plus compile probes
    cov["distinct_nontrivial"] = int(cov.get("distinct_nontrivial", 0))
    cov["rule"] = spec["rule"]
    cov["samples"] = samples[:8] if samples else []
    cov["exhaustive"] = bool(exhaustive)
    cov["bounds"] = notes[:400]
    cov["known_findings_reobserved"] = [h["key"] for h, _ in seen_known]
    cov["new_violation_keys"] = [k for k, _ in new]
    cov["build_s"] = round(t_build, 1)
    cov["jobs"] = len(jobs)
    ev = dict(property_id=pid, tier=tier, seed=seed, level=level, coverage=cov, assumptions=spec.get("assumptions", []), wall_s=round(time.time() - t0, 2), violations=len(new))
    os.makedirs(os.path.join(out_root, "evidence"), exist_ok=True)
    with open(os.path.join(out_root, "evidence", pid + ".json"), "w") as fh:
        json.dump(ev, fh, indent=1)
    # ---- report
    print("check %s tier=%s jobs=%d build=%.0fs wall=%.0fs states=%s transitions=%s evaluations=%s exhaustive=%s" % (
        pid, tier, len(jobs), t_build, time.time() - t0, cov.get("states"), cov.get("transitions"), cov.get("evaluations"), exhaustive))
    for key, path in new:
        print("VIOLATION property=%s replay=%s key=%s" % (pid, path, key))
    for h, path in seen_known:
        print("KNOWN-FINDING: property=%s %s [key=%s witness=%s]" % (pid, h.get("what", ""), h["key"], os.path.relpath(path, HERE)))
    return 1 if new else 0


def replay(path):
    rp = json.load(open(path))
    j = Job(rp["harness"], cfg=rp.get("cfg", "san"), defs=rp.get("defs", []), libs=rp.get("libs", []), cxx=rp.get("cxx"))
    rec = rp.get("rec") or {}
    if rec.get("kind") == "compile":
        binp, err = build(j)
        print("REPLAY compile", "FAILED: " + err.splitlines()[-1] if binp is None else "OK (the expression compiles on this tree)")
        return 1 if binp is None else 0
    binp, err = build(j)
    if binp is None:
        print("REPLAY build failed\n" + err[-3000:])
        return 2
    arg = rp.get("replay_arg") or rec.get("replay")
    if rec.get("kind") == "compile-probe":
        import tempfile
        src = rec.get("source") or ""
        print("compile probe: %s  (expected: %s; observed when recorded: %s)" % (rec.get("statement"), rec.get("expected"), rec.get("observed", "")[:200]))
        print("REPLAY: re-run `python3 verif.py check %s --tier quick` to re-evaluate compile probes (they are generated by probes.py)" % rp.get("property"))
        return 0
    if arg in (None, "", "compile", "fancy"):
        # class-level finding without a single-configuration replay: re-run the recorded job and look for the same key
        cmd = [binp] + [a for a in rp.get("args", []) if not a.startswith("--deadline")]
        env = dict(os.environ)
        env.update({"OPENBLAS_NUM_THREADS": "1", "OMPI_ALLOW_RUN_AS_ROOT": "1", "OMPI_ALLOW_RUN_AS_ROOT_CONFIRM": "1", "ASAN_OPTIONS": "detect_leaks=0:abort_on_error=1"})
        r = subprocess.run(cmd, env=env, stdout=subprocess.PIPE, stderr=subprocess.PIPE, text=True, errors="replace")
        hit = [l for l in r.stdout.splitlines() if l.startswith("V\t" + rp["key"] + "\t")]
        print(("REPLAY VIOLATION (key reproduced): " + hit[0][:400]) if hit else "REPLAY OK (key not reproduced by re-running the job)")
        return 1 if hit else 0
    if not arg:
        # crash records carry only a trace: harnesses accept it through --replay-trace
        arg = rec.get("trace", "")
        cmd = [binp, "--replay-trace=" + arg] + [a for a in rp.get("args", []) if not a.startswith("--shard")]
    else:
        cmd = [binp, "--replay=" + arg]
    env = dict(os.environ)
    env.update({"OPENBLAS_NUM_THREADS": "1", "OMPI_ALLOW_RUN_AS_ROOT": "1", "OMPI_ALLOW_RUN_AS_ROOT_CONFIRM": "1", "ASAN_OPTIONS": "detect_leaks=0"})
    r = subprocess.run(cmd, env=env)
    return r.returncode


def setup():
    ok = True
    for tool in ("g++", "clang++", "python3"):
        r = sh("command -v " + tool)
        print("%-8s %s" % (tool, r.stdout.strip() or "MISSING"))
        ok = ok and bool(r.stdout.strip())
    os.makedirs(BUILD, exist_ok=True)
    os.makedirs(os.path.join(HERE, "evidence"), exist_ok=True)
    return 0 if ok else 1


def manifest():
    props = [json.loads(l) for l in open(os.path.join(HERE, "properties.jsonl"))]
    checks, na = [], []
    for p in props:
        pid = p["id"]
        c = CHECKS.get(pid)
        if c is None or c.get("disabled"):
            na.append(dict(property_id=pid, reason=(c or {}).get("disabled") or "no check registered yet for this property (see DESIGN.md section 4 for the planned bounded-exhaustive formulation)"))
            continue
        checks.append(dict(
            property_id=pid,
            quick_cmd="python3 verif.py check %s --tier quick" % pid,
            thorough_cmd="python3 verif.py check %s --tier thorough" % pid,
            evidence_file="evidence/%s.json" % pid,
            replay_cmd_template="python3 verif.py replay {path}",
            engine=c.get("engine", "E1"),
            level_claimed=dict(category=c["level"], text=c["claim"], design_ref=c.get("design_ref", "DESIGN.md section 4, " + pid)),
            level_note=c.get("note", "; ".join(c.get("assumptions", []))),
            technique=c.get("technique", "explicit-state bounded exhaustive exploration of the implementation in lock-step with a reference model"),
        ))
    engines = [
        dict(name="E1", path="engine/view_model.hpp", serves_properties=["C01", "C02", "C03", "C05", "C11", "C12", "C18", "C19", "C20"], kind_free_text="explicit-state BFS over view states; every transition executed on the real typed view; affine reference model"),
        dict(name="E2", path="engine/hist_model.hpp", serves_properties=["C04", "C06", "C08", "C09", "C10", "C17"], kind_free_text="history BFS over a pool of owning arrays with tracked elements, ledger allocator and exhaustive single-fault injection"),
        dict(name="E3", path="harness/typemc.cpp", serves_properties=["C16"], kind_free_text="compile-time access-path explorer: states are expression types x const-taint, template memoisation is the visited set"),
        dict(name="E4", path="harness/", serves_properties=["C07", "C13", "C14", "C15"], kind_free_text="complete enumeration of finite configuration grids (layouts x sizes x scalars x data) against exact references"),
    ]
    m = dict(
        version=1,
        setup_cmd="python3 verif.py setup",
        hooks=dict(guard="BOOST_MULTI_VERIF", enable="no source hooks are needed: harnesses instantiate the public templates with tracking element/allocator/pointer types and use fork, PMPI and sanitizers; the guard is unused",
                   baseline_off_cmd="bash tools/baseline.sh", source_commits=[], add_only=True),
        engines=engines,
        checks=checks,
        not_applicable=na,
        notes="All checks: python3 verif.py check <ID> --tier quick|thorough; known findings in known_findings.json; replays written under replays/<ID>/.",
    )
    with open(os.path.join(HERE, "MANIFEST.json"), "w") as fh:
        json.dump(m, fh, indent=1)
    print("MANIFEST.json: %d checks, %d not_applicable" % (len(checks), len(na)))
    return 0


def main():
    import signal
    signal.signal(signal.SIGPIPE, signal.SIG_DFL)
    a = sys.argv[1:]
    if not a:
        print(__doc__)
        return 2
    if a[0] == "setup":
        return setup()
    if a[0] == "list":
        for k, v in CHECKS.items():
            print(k, v["level"], v.get("title", ""))
        return 0
    if a[0] == "check":
        pid = a[1]
        tier = os.environ.get("VERIF_TIER", "quick")
        if "--tier" in a:
            tier = a[a.index("--tier") + 1]
        return check(pid, tier)
    if a[0] == "replay":
        return replay(a[1])
    if a[0] == "manifest":
        return manifest()
    print(__doc__)
    return 2


if __name__ == "__main__":
    sys.exit(main())
