// Per-state oracle of C01 (also reused by C11/C19/C20): shape queries and element addresses of the real view vs the model.
#pragma once
#include "view_model.hpp"

namespace vo {
using namespace vm;

template<class T>
struct GuardBuffer {
	static constexpr idx G = 16;
	std::vector<T> buf; idx n;
	explicit GuardBuffer(idx n_) : buf(static_cast<std::size_t>(n_ + 2*G)), n(n_) { for(idx i = 0; i < G; ++i) { buf[static_cast<std::size_t>(i)] = sentinel(i); buf[static_cast<std::size_t>(G + n + i)] = sentinel(i + 100); } }
	static T sentinel(idx i) { return static_cast<T>(-7770 - i); }
	T* data() { return buf.data() + G; }
	bool intact() const { for(idx i = 0; i < G; ++i) { if(!(buf[static_cast<std::size_t>(i)] == sentinel(i)) || !(buf[static_cast<std::size_t>(G + n + i)] == sentinel(i + 100))) { return false; } } return true; }
};

template<int D, std::size_t... I> auto make_extensions_impl(std::vector<idx> const& s, std::index_sequence<I...>) { return multi::extensions_t<D>{multi::iextension{s[I]}...}; }
template<int D> auto make_extensions(std::vector<idx> const& s) { return make_extensions_impl<D>(s, std::make_index_sequence<static_cast<std::size_t>(D)>{}); }
template<int D, std::size_t... I> auto make_extensions_impl(std::vector<idx> const& f, std::vector<idx> const& s, std::index_sequence<I...>) { return multi::extensions_t<D>{multi::iextension{f[I], f[I] + s[I]}...}; }
template<int D> auto make_extensions(std::vector<idx> const& firsts, std::vector<idx> const& s) { return make_extensions_impl<D>(firsts, s, std::make_index_sequence<static_cast<std::size_t>(D)>{}); }

struct Fail { bool bad = false; std::string oracle, detail; };
inline Fail fail(std::string const& o, std::string const& d) { return Fail{true, o, d}; }

inline long g_tuples = 0, g_addr = 0;

template<class Tup, std::size_t... I> std::vector<idx> tup_vec_impl(Tup const& t, std::index_sequence<I...>) { using boost::multi::detail::get; using std::get; return {static_cast<idx>(get<I>(t))...}; }

template<std::size_t... I> auto tup_from(idx const* p, std::index_sequence<I...>) { return boost::multi::detail::tuple<decltype(static_cast<void>(I), idx{})...>{p[I]...}; }

// options: which facts about index bases are asserted
struct Opt { bool check_first = true; bool positional_cursor = true; };

template<class V, class P>
Fail check_view(V&& v, MView const& m, P data, idx N, Opt opt = {}) {
	constexpr int D = rank_of<V>;
	constexpr auto SEQ = std::make_index_sequence<static_cast<std::size_t>(D)>{};
	if(m.rank() != D) { return fail("rank", "model rank " + std::to_string(m.rank()) + " real " + std::to_string(D)); }
	auto S = [](idx x) { return std::to_string(x); };
	// --- shape queries
	if(v.size() != m.d[0].size) { return fail("size", "size()=" + S(v.size()) + " model " + S(m.d[0].size)); }
	auto szs = tup_vec_impl(v.sizes(), SEQ);
	for(int j = 0; j < D; ++j) { auto u = static_cast<std::size_t>(j); if(szs[u] != m.d[u].size) { return fail("sizes", "sizes()[" + S(j) + "]=" + S(szs[u]) + " model " + S(m.d[u].size)); } }
	if(v.num_elements() != m.num_elements()) { return fail("num_elements", "num_elements()=" + S(v.num_elements()) + " model " + S(m.num_elements())); }
	if(v.is_empty() != (m.d[0].size == 0)) { return fail("is_empty", std::string("is_empty()=") + (v.is_empty() ? "true" : "false") + " but size " + S(m.d[0].size)); }
	{
		auto xs = v.extensions();
		auto firsts = std::apply([](auto... e) { return std::vector<idx>{static_cast<idx>(e.first())...}; }, xs.base());
		auto lens = std::apply([](auto... e) { return std::vector<idx>{static_cast<idx>(e.size())...}; }, xs.base());
		for(int j = 0; j < D; ++j) {
			auto u = static_cast<std::size_t>(j);
			if(lens[u] != m.d[u].size) { return fail("extensions", "extensions()[" + S(j) + "].size=" + S(lens[u]) + " model " + S(m.d[u].size)); }
			if(opt.check_first && m.d[u].size > 0 && firsts[u] != m.d[u].first) { return fail("extensions-first", "extensions()[" + S(j) + "].first=" + S(firsts[u]) + " model " + S(m.d[u].first)); }
		}
		auto x0 = v.extension();
		if(x0.size() != m.d[0].size) { return fail("extension", "extension().size=" + S(x0.size())); }
	}
	// representation invariant of the stored layout: at every level the element span is exactly size x stride (size() is computed as nelems/stride, so a span that is not a
	// multiple of the stride is floored away by size() but is used as it stands by flatted(), end(), partitioned(): a latent error one operation later)
	{
		std::string lw; int lvl = 0;
		auto chk = [&](auto const& self, auto const& l) -> void {
			using L = std::decay_t<decltype(l)>;
			if constexpr(L::dimensionality > 0) {
				if(lw.empty() && l.stride() != 0 && l.nelems() != l.size()*l.stride()) { lw = "level " + S(lvl) + ": nelems()=" + S(l.nelems()) + " size()=" + S(l.size()) + " stride()=" + S(l.stride()); }
				++lvl; self(self, l.sub());
			}
		};
		chk(chk, v.layout());
		if(!lw.empty()) { return fail("layout-span", lw); }
	}
	bool const nonempty = !m.has_empty_dim();
	if(nonempty) {
		auto str = tup_vec_impl(v.strides(), SEQ);
		for(int j = 0; j < D; ++j) { auto u = static_cast<std::size_t>(j); if(m.d[u].size >= 2 && str[u] != m.d[u].stride) { return fail("strides", "strides()[" + S(j) + "]=" + S(str[u]) + " model " + S(m.d[u].stride)); } }
		if(m.d[0].size >= 2 && v.stride() != m.d[0].stride) { return fail("stride", "stride()=" + S(v.stride())); }
	}
	// --- every valid index tuple, four access paths
	Fail out;
	for_each_index(m, [&](std::vector<idx> const& t, idx off) {
		if(out.bad) { return; }
		++g_tuples;
		if(off < 0 || off >= N) { out = fail("model-range", "model offset " + S(off) + " outside [0," + S(N) + ") at " + tup_str(t)); return; }
		auto const* expect = data + off;
		auto const* a1 = addr_brackets(v, t.data()); ++g_addr;
		if(a1 != expect) { out = fail("addr-brackets", "index " + tup_str(t) + " -> offset " + S(a1 - data) + " expected " + S(off)); return; }
		auto const* a2 = addr_call(v, t.data(), SEQ); ++g_addr;
		if(a2 != expect) { out = fail("addr-call", "index " + tup_str(t) + " -> offset " + S(a2 - data) + " expected " + S(off)); return; }
		auto const* a3 = addr_apply(v, t.data(), SEQ); ++g_addr;
		if(a3 != expect) { out = fail("addr-apply", "index " + tup_str(t) + " -> offset " + S(a3 - data) + " expected " + S(off)); return; }
		// cursor: positions relative to home()
		std::vector<idx> p(t); for(int j = 0; j < D; ++j) { auto u = static_cast<std::size_t>(j); p[u] = t[u] - m.d[u].first; }
		auto h = v.home();
		auto const* a4 = addr_cursor<decltype(h), D>(h, p.data()); ++g_addr;
		if(a4 != expect) { out = fail("addr-cursor", "position " + tup_str(p) + " -> offset " + S(a4 - data) + " expected " + S(off)); return; }
		auto c = v.home(); c += tup_from(p.data(), SEQ); ++g_addr;
		if(std::addressof(*c) != expect) { out = fail("addr-cursor+=", "position " + tup_str(p) + " -> offset " + S(std::addressof(*c) - data) + " expected " + S(off)); return; }
	});
	if(out.bad) { return out; }
	// --- measured strides (address difference of neighbours)
	if(nonempty) {
		for(int j = 0; j < D; ++j) {
			auto u = static_cast<std::size_t>(j);
			if(m.d[u].size < 2) { continue; }
			std::vector<idx> t0(static_cast<std::size_t>(D)), t1;
			for(int q = 0; q < D; ++q) { t0[static_cast<std::size_t>(q)] = m.d[static_cast<std::size_t>(q)].first; }
			t1 = t0; t1[u] += 1;
			auto diff = addr_brackets(v, t1.data()) - addr_brackets(v, t0.data());
			auto str = tup_vec_impl(v.strides(), SEQ);
			if(diff != str[u]) { return fail("stride-measured", "dimension " + S(j) + " reported stride " + S(str[u]) + " measured " + S(diff)); }
		}
	}
	// --- broadcasted leaf: b[i] designates the source view for i in {0,1,5}
	if constexpr(D < DMAX) {
		if(nonempty) {
			auto b = v.broadcasted();
			for(idx i : {idx{0}, idx{1}, idx{5}}) {
				auto bi = b[i];
				Fail f2;
				for_each_index(m, [&](std::vector<idx> const& t, idx off) {
					if(f2.bad) { return; }
					++g_addr;
					if(addr_brackets(bi, t.data()) != data + off) { f2 = fail("broadcasted", "b[" + S(i) + "]" + tup_str(t) + " -> offset " + S(addr_brackets(bi, t.data()) - data) + " expected " + S(off)); }
				});
				if(f2.bad) { return f2; }
			}
		}
	}
	return {};
}


// replay a single trace outside the explorer: prints the verdict
inline int replay_one(std::vector<idx> const& sizes, bool owning, Hist const& h);

template<int D>
int replay_shape(std::vector<idx> const& sizes, bool owning, Hist const& h) {
	idx N = 1; for(auto s : sizes) { N *= s; }
	MView m = root_model(sizes);
	for(auto const& o : h) { if(!m_apply(m, o)) { std::printf("REPLAY out-of-domain op %s\n", op_str(o).c_str()); return 2; } }
	int rc = 0;
	auto go = [&](auto& root, int const* data) {
		bool reached = false;
		walk(root(), h.data(), static_cast<int>(h.size()), [&](auto&& v) {
			reached = true;
			MView mm = m; mm.ro = is_ro_v<decltype(v)>;
			Fail f = check_view(v, mm, data, N);
			if(f.bad) { std::printf("REPLAY VIOLATION oracle=%s detail=%s model=%s\n", f.oracle.c_str(), f.detail.c_str(), key_of(mm).c_str()); rc = 1; }
			else { std::printf("REPLAY OK model=%s\n", key_of(mm).c_str()); }
		});
		if(!reached) { std::printf("REPLAY trace not expressible on this tree\n"); rc = 2; }
	};
	auto exts = make_extensions<D>(sizes);
	if(owning) { multi::array<int, D> a(exts); go(a, a.data_elements()); }
	else { GuardBuffer<int> g(N); multi::array_ref<int, D> a(exts, g.data()); go(a, g.data()); }
	return rc;
}
inline int replay_one(std::vector<idx> const& sizes, bool owning, Hist const& h) {
#ifdef ONLY_RANK
	if(sizes.size() == ONLY_RANK) { return replay_shape<ONLY_RANK>(sizes, owning, h); }
	return 3;
#else
	switch(sizes.size()) {
		case 1: return replay_shape<1>(sizes, owning, h);
		case 2: return replay_shape<2>(sizes, owning, h);
		case 3: return replay_shape<3>(sizes, owning, h);
		case 4: return replay_shape<4>(sizes, owning, h);
		default: return 2;
	}
#endif
}

}  // namespace vo
