// Common infrastructure for all explorers: reporting protocol, crash supervision, deadline, JSON helpers.
// Protocol (stdout, one record per line, TAB separated):
//   V <key> <json>    a violation (key = class used for the known-findings lookup; json = replay record)
//   S <json>          statistics of one shard (numeric fields are summed by the driver)
#pragma once
#include <sys/mman.h>
#include <sys/wait.h>
#include <unistd.h>
#include <fcntl.h>
#include <csignal>
#include <cstdio>
#include <cstdlib>
#include <cstring>
#include <chrono>
#include <functional>
#include <map>
#include <set>
#include <sstream>
#include <string>
#include <vector>

namespace mc {

inline std::string jesc(std::string const& s) {
	std::string r;
	for(char c : s) {
		switch(c) {
			case '"': r += "\\\""; break;
			case '\\': r += "\\\\"; break;
			case '\n': r += "\\n"; break;
			case '\t': r += "\\t"; break;
			case '\r': r += "\\r"; break;
			default:
				if(static_cast<unsigned char>(c) < 0x20) { char b[8]; std::snprintf(b, sizeof b, "\\u%04x", c); r += b; }
				else { r += c; }
		}
	}
	return r;
}
inline std::string jstr(std::string const& s) { return "\"" + jesc(s) + "\""; }

// minimal JSON object builder
struct J {
	std::ostringstream o; bool first = true;
	J() { o << "{"; }
	J& raw(std::string const& k, std::string const& v) { o << (first ? "" : ",") << jstr(k) << ":" << v; first = false; return *this; }
	J& s(std::string const& k, std::string const& v) { return raw(k, jstr(v)); }
	J& n(std::string const& k, long long v) { return raw(k, std::to_string(v)); }
	J& d(std::string const& k, double v) { std::ostringstream t; t << v; return raw(k, t.str()); }
	J& b(std::string const& k, bool v) { return raw(k, v ? "true" : "false"); }
	std::string str() const { return o.str() + "}"; }
};
inline std::string jarr(std::vector<std::string> const& raw_items) {
	std::string r = "[";
	for(std::size_t i = 0; i < raw_items.size(); ++i) { r += (i ? "," : ""); r += raw_items[i]; }
	return r + "]";
}
inline std::string jarr_s(std::vector<std::string> const& items) {
	std::vector<std::string> q; for(auto const& i : items) { q.push_back(jstr(i)); }
	return jarr(q);
}

// ---- shared "what am I about to execute" record (survives the death of the child) ----
struct Cur { char key[256]; char trace[2048]; char phase[128]; };
inline Cur* g_cur = nullptr;
inline void cur_init() {
	if(!g_cur) { g_cur = static_cast<Cur*>(mmap(nullptr, sizeof(Cur), PROT_READ | PROT_WRITE, MAP_SHARED | MAP_ANONYMOUS, -1, 0)); std::memset(g_cur, 0, sizeof(Cur)); }
}
inline void cur_set(std::string const& key, std::string const& trace) {
	if(!g_cur) { cur_init(); }
	std::snprintf(g_cur->key, sizeof g_cur->key, "%s", key.c_str());
	std::snprintf(g_cur->trace, sizeof g_cur->trace, "%s", trace.c_str());
	g_cur->phase[0] = 0;
}
inline void cur_phase(char const* p) { if(g_cur) { std::snprintf(g_cur->phase, sizeof g_cur->phase, "%s", p); } }

// ---- reporter ----
struct Reporter {
	std::map<std::string, std::pair<long, std::string>> viol;  // key -> (count, first json)
	std::map<std::string, long long> num;                      // summed stats
	std::vector<std::string> samples;                           // raw json items
	std::set<std::string> outcomes;                             // distinct observed outcome digests (bounded)
	std::vector<std::string> notes;
	bool exhaustive = true;
	void violation(std::string const& key, std::string const& json) {
		auto it = viol.find(key);
		if(it == viol.end()) { viol.emplace(key, std::make_pair(1L, json)); } else { ++it->second.first; }
	}
	void add(std::string const& k, long long v = 1) { num[k] += v; }
	void sample(std::string const& raw_json, std::size_t cap = 6) { if(samples.size() < cap) { samples.push_back(raw_json); } }
	void outcome(std::string const& o) { if(outcomes.size() < 100000) { outcomes.insert(o); } }
	void note(std::string const& s) { notes.push_back(s); }
	void emit(FILE* f) {
		for(auto const& [k, v] : viol) {
			std::string js = v.second;
			std::fprintf(f, "V\t%s\t{\"count\":%ld,\"rec\":%s}\n", k.c_str(), v.first, js.c_str());
		}
		J j;
		for(auto const& [k, v] : num) { j.n(k, v); }
		j.n("distinct_outcomes", static_cast<long long>(outcomes.size()));
		j.b("exhaustive", exhaustive);
		j.raw("samples", jarr(samples));
		j.raw("notes", jarr_s(notes));
		std::fprintf(f, "S\t%s\n", j.str().c_str());
		std::fflush(f);
	}
};
inline Reporter R;

// ---- deadline ----
inline std::chrono::steady_clock::time_point g_deadline = std::chrono::steady_clock::time_point::max();
inline void set_deadline(double secs) { g_deadline = std::chrono::steady_clock::now() + std::chrono::milliseconds(static_cast<long>(secs * 1000)); }
inline bool past_deadline() { return std::chrono::steady_clock::now() > g_deadline; }

// ---- args ----
struct Args {
	std::map<std::string, std::string> kv;
	Args(int argc, char** argv) {
		for(int i = 1; i < argc; ++i) {
			std::string a = argv[i];
			auto p = a.find('=');
			if(a.rfind("--", 0) == 0) { a = a.substr(2); p = a.find('='); }
			if(p == std::string::npos) { kv[a] = "1"; } else { kv[a.substr(0, p)] = a.substr(p + 1); }
		}
	}
	std::string get(std::string const& k, std::string const& d = "") const { auto it = kv.find(k); return it == kv.end() ? d : it->second; }
	long geti(std::string const& k, long d) const { auto it = kv.find(k); return it == kv.end() ? d : std::atol(it->second.c_str()); }
	bool has(std::string const& k) const { return kv.count(k) != 0; }
};

inline std::string read_fd_all(int fd) {
	std::string r; char buf[65536]; lseek(fd, 0, SEEK_SET);
	for(;;) { auto n = read(fd, buf, sizeof buf); if(n <= 0) { break; } r.append(buf, static_cast<std::size_t>(n)); }
	return r;
}
inline std::string last_lines(std::string const& s, std::size_t maxchars = 600) {
	std::string t = s.size() > maxchars ? s.substr(s.size() - maxchars) : s;
	return t;
}
// first interesting line of a crash's stderr: an assertion text or a sanitizer summary
inline std::string crash_digest(std::string const& err) {
	std::istringstream is(err); std::string line, first_assert, first_san, first_rt;
	while(std::getline(is, line)) {
		if(first_assert.empty() && (line.find("Assertion") != std::string::npos || line.find("assert") != std::string::npos)) { first_assert = line; }
		if(first_san.empty() && (line.find("ERROR: AddressSanitizer") != std::string::npos)) { first_san = line; }
		if(first_rt.empty() && line.find("runtime error:") != std::string::npos) { first_rt = line; }
	}
	std::string r;
	if(!first_assert.empty()) { r += first_assert; }
	if(!first_rt.empty()) { r += (r.empty() ? "" : " || ") + first_rt; }
	if(!first_san.empty()) { r += (r.empty() ? "" : " || ") + first_san; }
	if(r.empty()) { r = last_lines(err, 300); }
	if(r.size() > 700) { r.resize(700); }
	return r;
}
inline std::string crash_class(std::string const& err) {
	// order matters: what came FIRST in the stream
	auto pa = err.find("Assertion"); auto ps = err.find("ERROR: AddressSanitizer"); auto pu = err.find("runtime error:");
	auto m = std::min(pa, std::min(ps, pu));
	if(m == std::string::npos) { return "signal"; }
	if(m == pa) { return "assertion"; }
	if(m == ps) { return "asan"; }
	return "ubsan";
}

// Run `body(skip)` in a forked child; a child that dies is converted into a violation whose trace is the shared
// Cur record, the trace's key is added to `skip`, and the shard is restarted (deterministic re-derivation).
// body must call R.emit(stdout) itself at the end (the child's stdout is a memfd relayed only on success).
inline int supervise(std::function<void(std::set<std::string> const&)> body, int max_restarts = 24) {
	cur_init();
	std::set<std::string> skip;
	std::vector<std::string> crash_lines;
	bool gave_up = false;
	for(int attempt = 0;; ++attempt) {
		int out = memfd_create("mc_out", 0), err = memfd_create("mc_err", 0);
		std::fflush(stdout); std::fflush(stderr);
		pid_t pid = fork();
		if(pid == 0) {
			dup2(out, 1); dup2(err, 2);
			body(skip);
			std::fflush(stdout); std::fflush(stderr);
			_exit(0);
		}
		int st = 0; waitpid(pid, &st, 0);
		std::string so = read_fd_all(out), se = read_fd_all(err);
		close(out); close(err);
		if(WIFEXITED(st) && WEXITSTATUS(st) == 0) {
			std::fwrite(so.data(), 1, so.size(), stdout);
			break;
		}
		// crash
		std::string cause = WIFSIGNALED(st) ? ("signal " + std::to_string(WTERMSIG(st))) : ("exit " + std::to_string(WEXITSTATUS(st)));
		std::string ktrace = g_cur->trace, kkey = g_cur->key, phase = g_cur->phase;
		std::string cls = crash_class(se);
		std::string key = "crash:" + cls + "|" + kkey + (phase.empty() ? "" : "|" + phase);
		J j; j.s("kind", "crash").s("cause", cause).s("class", cls).s("trace", ktrace).s("phase", phase).s("stderr", crash_digest(se));
		char buf[64]; std::snprintf(buf, sizeof buf, "%d", attempt);
		crash_lines.push_back("V\t" + key + "\t{\"count\":1,\"rec\":" + j.str() + "}\n");
		if(ktrace.empty() || skip.count(ktrace) || attempt >= max_restarts) { gave_up = true; break; }
		skip.insert(ktrace);
	}
	for(auto const& l : crash_lines) { std::fwrite(l.data(), 1, l.size(), stdout); }
	if(gave_up) { std::printf("S\t{\"exhaustive\":false,\"notes\":[\"supervisor gave up restarting after a crash\"],\"samples\":[]}\n"); }
	std::fflush(stdout);
	return 0;
}

}  // namespace mc
