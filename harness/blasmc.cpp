// C13 — BLAS adaptor: complete grid  operation form x element type x per-operand layout variant x sizes x scalars,
// against naive references on exactly representable data (comparison is ==; the only tolerance is stated at nrm2).
//
// Every operand lives in its own store (guard rows / padding filled with a large sentinel).  After the call:
// output == reference (read through plain indexing), every input unchanged, every store element outside the operand views unchanged.
// Outcomes: correct | rejected (C++ exception, or an assertion located in include/boost/multi) | violation.
//
// Isolation.  The enumeration runs in a parent that never calls the library; configurations are executed by forked children in batches.
// assert() is an abort, so to keep children cheap the harness supplies its own __assert_fail: a failing assertion *inside a guarded
// library call* records (file, line, expression) and siglongjmp()s back to the guard -> outcome "rejected" iff the file is under
// include/boost/multi.  Any real death of a child (SIGSEGV, SIGFPE, sanitizer report, abort from elsewhere) is attributed to the
// configuration published in shared memory before it was started, and the batch is resumed behind it.  A child that finds a violation
// reports it and exits (the next configuration starts in a fresh process).  xerbla_ is interposed as well: the reference BLAS behaviour on
// an illegal argument is "print and return", which would otherwise look like an untouched output.
#include <boost/multi/adaptors/blas.hpp>
#include <boost/multi/array.hpp>

#include <complex>
#include <csetjmp>
#include <cmath>

#include "../engine/mc_common.hpp"

namespace multi = boost::multi;
namespace blas  = multi::blas;

// ------------------------------------------------------------------------------------------------ interposition
static sigjmp_buf    g_jmp;
static volatile bool g_armed = false;
static char          g_assert[700];
static bool          g_assert_lib = false;
extern "C" [[noreturn]] void __assert_fail(char const* expr, char const* file, unsigned line, char const* /*func*/) noexcept {
	std::snprintf(g_assert, sizeof g_assert, "%s:%u: Assertion `%s' failed.", file, line, expr);
	g_assert_lib = std::strstr(file, "include/boost/multi") != nullptr;
	if(g_armed) { g_armed = false; siglongjmp(g_jmp, 1); }
	std::fprintf(stderr, "%s (outside a guarded library call)\n", g_assert);
	std::abort();
}
static int  g_xerbla = 0;
static char g_xerbla_name[8];
extern "C" void xerbla_(char const* name, int* info, int /*len*/) {
	g_xerbla = *info;
	std::snprintf(g_xerbla_name, sizeof g_xerbla_name, "%.6s", name);
}
static std::string g_exc;
// 0 = ran to completion, 1 = C++ exception, 2 = assertion in include/boost/multi, 3 = assertion elsewhere
template<class F> __attribute__((noinline)) int guarded(F&& f) {
	g_xerbla = 0;
	if(sigsetjmp(g_jmp, 0) == 0) {
		int r = 0;
		g_armed = true;
		try { f(); } catch(std::exception const& e) { g_exc = e.what(); r = 1; } catch(...) { g_exc = "non-std exception"; r = 1; }
		g_armed = false;
		return r;
	}
	return g_assert_lib ? 2 : 3;
}

// ------------------------------------------------------------------------------------------------ element types, scalars
template<class T> struct is_cx : std::false_type {};
template<class R> struct is_cx<std::complex<R>> : std::true_type {};
template<class T> struct real_of { using type = T; };
template<class R> struct real_of<std::complex<R>> { using type = R; };
template<class T> using real_t = typename real_of<T>::type;
template<class T> char const* tname() {
	if constexpr(std::is_same_v<T, float>) { return "float"; } else if constexpr(std::is_same_v<T, double>) { return "double"; }
	else if constexpr(std::is_same_v<T, std::complex<float>>) { return "complex<float>"; } else { return "complex<double>"; }
}
template<class T> char const* tcode() {
	if constexpr(std::is_same_v<T, float>) { return "s"; } else if constexpr(std::is_same_v<T, double>) { return "d"; }
	else if constexpr(std::is_same_v<T, std::complex<float>>) { return "c"; } else { return "z"; }
}
template<class T> T mk(long re, long im) { if constexpr(is_cx<T>{}) { return T(static_cast<real_t<T>>(re), static_cast<real_t<T>>(im)); } else { (void)im; return static_cast<T>(re); } }
template<class T> T cj(T v) { if constexpr(is_cx<T>{}) { return std::conj(v); } else { return v; } }
template<class T> std::string vstr(T v) {
	char b[96];
	if constexpr(is_cx<T>{}) { std::snprintf(b, sizeof b, "(%.9g,%.9g)", static_cast<double>(v.real()), static_cast<double>(v.imag())); } else { std::snprintf(b, sizeof b, "%.9g", static_cast<double>(v)); }
	return b;
}
// scalar alphabet: 0, 1, 2, i, 1+2i   (the last two only for complex element types)
static char const* const sc_name[] = {"0", "1", "2", "i", "1+2i"};
template<class T> int nscal() { return is_cx<T>{} ? 5 : 3; }
template<class T> T   scal_of(int i) { switch(i) { case 0: return mk<T>(0, 0); case 1: return mk<T>(1, 0); case 2: return mk<T>(2, 0); case 3: return mk<T>(0, 1); default: return mk<T>(1, 2); } }
static std::string sc_class(int i) { return i == 0 ? "=0" : "!=0"; }
static char const* szc(long n) { return n == 0 ? "0" : (n == 1 ? "1" : "2+"); }

// ------------------------------------------------------------------------------------------------ outcome of one configuration
struct Res {
	int         code = 0;  // 0 correct, 1 rejected by exception, 2 rejected by library assertion, 3 violation
	std::string symptom, detail;
	bool        escaped = false;  // damage reached the outermost guard row of a store: the process may be corrupted, the child exits after reporting
	void flag(std::string const& s, std::string const& d) {
		code = 3;
		if(symptom.find(s) == std::string::npos) { symptom += (symptom.empty() ? "" : "+") + s; }
		if(detail.size() < 600) { detail += (detail.empty() ? "" : "; ") + d; }
	}
	// The symptom that enters the violation KEY is deliberately coarse: how a miscomputation shows (wrong numbers, output not written, damage outside the view,
	// a wild access that happens to hit an unmapped page) depends on sizes and on heap addresses, so finer symptoms would split one class over several keys
	// and make the key set depend on the tier or on the position of a configuration in its batch.  The record keeps the detailed list.
	std::string keysym() const {
		for(char const* s : {"blas-illegal-argument", "foreign-assertion", "view-mismatch", "nondeterministic"}) { if(symptom.find(s) != std::string::npos) { return s; } }
		return "miscomputed";
	}
};
struct Desc {
	std::string id, keyprefix;                                  // replay string; key without the symptom
	std::vector<std::pair<std::string, std::string>> fields;  // human-readable
};

// ------------------------------------------------------------------------------------------------ batching supervisor
struct Shm {
	long pos;
	long n_correct, n_rej_exc, n_rej_assert, n_viol;
	int  finished;
};
struct Driver {
	enum { PARENT, CHILD, REPLAY } mode = PARENT;
	long nshards = 1, shard = 0, batch = 256;
	long gidx = 0;                     // index in the complete grid
	long grid_total = 0, mine = 0, nontrivial = 0, deaths = 0;
	long skip_remaining = 0;           // parent: configurations of the current batch already executed by children
	long cpos = 0, cstart = 0;         // child: position inside the batch, first position to execute
	int  vfd = -1;                     // child: pipe for violation records
	bool stopped = false;
	std::string replay;
	bool replay_found = false; long repeat = 1, replay_tag = -1, next_sample = 3000;
	Res  replay_res; Desc replay_desc;
	Shm* sh = nullptr;
	std::string section_filter;       // replay: "<form>/<type>/" prefix of the wanted configuration

	void init() {
		sh = static_cast<Shm*>(mmap(nullptr, sizeof(Shm), PROT_READ | PROT_WRITE, MAP_SHARED | MAP_ANONYMOUS, -1, 0));
		std::memset(sh, 0, sizeof(Shm));
		mc::cur_init();
	}
	static std::string record(Desc const& d, Res const& r) {
		mc::J j;
		j.s("harness", "blasmc").s("replay", d.id);
		for(auto const& f : d.fields) { j.s(f.first, f.second); }
		j.s("symptom", r.symptom).s("detail", r.detail);
		return j.str();
	}
	// true if a section (operation form, element type) has to be enumerated at all
	bool want(std::string const& form, char const* tc) const { return mode == REPLAY ? replay.rfind(form + "/" + tc + "/", 0) == 0 : (only.empty() || form.rfind(only, 0) == 0); }
	std::string only;                 // --only=<form prefix>: restrict the run to some sections (diagnostics; the driver never passes it)

	// tag: the sizes of the configuration packed into a number (lets a replay skip most configurations without building their description)
	template<class DescF, class ExecF> void step(long tag, bool nontriv, DescF&& descf, ExecF&& exec) {
		long const g = gidx++;
		if(mode == REPLAY) {
			if(replay_found || tag != replay_tag) { return; }
			Desc d = descf();
			if(d.id != replay) { return; }
			replay_found = true; replay_desc = d;
			mc::cur_set(d.keyprefix, d.id);
			replay_res = exec();
			for(long i = 1; i < repeat; ++i) { Res again = exec(); if(again.code != replay_res.code || again.symptom != replay_res.symptom || again.detail != replay_res.detail) { replay_res.flag("nondeterministic", "a repeated execution gave a different outcome: " + again.symptom + " " + again.detail); } }
			return;
		}
		if(g % nshards != shard) { return; }
		if(mode == PARENT) {
			if(nontriv && g >= next_sample && mc::R.samples.size() < 4 && (tag % 10) >= 2 && (tag < 10 || (tag / 10) % 10 >= 2)) {   // (sizes >= 2)
				Desc d = descf(); mc::J j; j.s("replay", d.id); for(auto const& f : d.fields) { j.s(f.first, f.second); }
				mc::R.sample(j.str(), 4); next_sample = g + 150000;
			}
			if(skip_remaining > 0) { --skip_remaining; ++mine; nontrivial += nontriv ? 1 : 0; return; }
			if(stopped) { return; }
			if(mc::past_deadline()) { stopped = true; mc::R.exhaustive = false; return; }
			long done = 0;
			while(done < batch) {
				int err = memfd_create("blasmc_err", 0);
				int pfd[2]; if(pipe(pfd) != 0) { std::perror("pipe"); std::exit(3); }
				sh->pos = -1; sh->finished = 0;
				std::fflush(stdout); std::fflush(stderr);
				pid_t pid = fork();
				if(pid == 0) { dup2(err, 2); close(err); close(pfd[0]); vfd = pfd[1]; mode = CHILD; cpos = 0; cstart = done; alarm(600); break; }   // (a hanging batch is killed by SIGALRM and reported as a crash of its current configuration)
				close(pfd[1]);
				std::string vio; { char buf[65536]; for(;;) { auto n = read(pfd[0], buf, sizeof buf); if(n <= 0) { break; } vio.append(buf, static_cast<std::size_t>(n)); } }
				close(pfd[0]);
				int st = 0; waitpid(pid, &st, 0);
				for(std::size_t b = 0; b < vio.size();) {  // lines  key TAB json
					auto e = vio.find('\n', b); if(e == std::string::npos) { break; }
					auto t = vio.find('\t', b);
					if(t != std::string::npos && t < e) { mc::R.violation(vio.substr(b, t - b), vio.substr(t + 1, e - t - 1)); }
					b = e + 1;
				}
				if(WIFEXITED(st) && WEXITSTATUS(st) == 0 && sh->finished != 0) { done = batch; }
				else if(WIFEXITED(st) && WEXITSTATUS(st) == 0 && sh->pos >= done) { done = sh->pos + 1; }   // the child left deliberately after configuration sh->pos
				else {
					std::string se = mc::read_fd_all(err);
					std::string cause = WIFSIGNALED(st) ? ("signal " + std::to_string(WTERMSIG(st))) : ("exit " + std::to_string(WEXITSTATUS(st)));
					std::string cls = mc::crash_class(se);
					if(cls == "signal" && WIFSIGNALED(st)) { cls = "signal-" + std::to_string(WTERMSIG(st)); }
					std::string kp = mc::g_cur->key, id = mc::g_cur->trace;
					if(sh->pos < done) { kp = "harness"; id = "(died before executing a configuration)"; }
					++deaths; ++sh->n_viol;
					// a wild memory access (BLAS is not instrumented: only a fault or a later ASan report reveals it) is the same defect class as wrong numbers
					std::string const sym = (cls == "asan" || cls == "signal-11" || cls == "signal-7") ? std::string("miscomputed") : "crash:" + cls;
					mc::R.violation(kp + "|" + sym, mc::J().s("harness", "blasmc").s("replay", id).s("kind", "crash").s("cause", cause).s("class", cls).s("stderr", mc::crash_digest(se)).str());
					done = std::max(done + 1, sh->pos + 1);
				}
				close(err);
			}
			if(mode == PARENT) { skip_remaining = batch - 1; ++mine; nontrivial += nontriv ? 1 : 0; return; }
		}
		// CHILD
		long const p = cpos++;
		if(p < cstart) { return; }
		Desc d = descf();
		mc::cur_set(d.keyprefix, d.id);
		sh->pos = p;
		Res r = exec();
		switch(r.code) {
			case 0: ++sh->n_correct; break;
			case 1: ++sh->n_rej_exc; break;
			case 2: ++sh->n_rej_assert; break;
			default: {
				++sh->n_viol;
				if(r.detail.size() > 900) { r.detail.resize(900); }
				std::string line = d.keyprefix + "|" + r.keysym() + "\t" + record(d, r) + "\n";
				for(std::size_t o = 0; o < line.size();) { auto n = write(vfd, line.data() + o, line.size() - o); if(n <= 0) { break; } o += static_cast<std::size_t>(n); }
				if(r.escaped) { std::fflush(stderr); _exit(0); }
			}
		}
		if(p == batch - 1) { sh->finished = 1; std::fflush(stderr); _exit(0); }
	}
	// called after the last section
	void finish_child() { if(mode == CHILD) { sh->finished = 1; std::fflush(stderr); _exit(0); } }
};
static Driver D;

// ------------------------------------------------------------------------------------------------ operands
enum { BN, BT, BP, BPT, NBASE };
static char const* const bname[] = {"N", "T", "P", "PT"};
enum { WI, WJ, WH, NWRAP };
struct ML { int base, wrap; };
// spelling used in the replay string
static std::string lname(ML l) { return l.wrap == WI ? std::string(bname[l.base]) : std::string(l.wrap == WJ ? "J." : "H.") + bname[l.base]; }
// layout class used in violation keys: H of a layout presents the adaptor with exactly the strides and pointer type of J of the transposed layout
static std::string cname(ML l) { static int const tr[] = {BT, BN, BPT, BP}; return l.wrap == WH ? std::string("J.") + bname[tr[l.base]] : lname(l); }
template<class T> std::vector<ML> mlayouts(bool conj_ok) {
	std::vector<ML> r;
	for(int w = 0; w < ((is_cx<T>{} && conj_ok) ? NWRAP : 1); ++w) { for(int b = 0; b < NBASE; ++b) { r.push_back(ML{b, w}); } }
	return r;
}
static long g_ib = 0;   // --rebase=k: every MATRIX operand view carries non-zero index bases (k, k+1) (1-D reindexed() yields a read-only view on this tree, so vector operands stay zero-based); the logical contents and every expected result are the same
static bool tripwire(long p, long W, long H) { return p < W || p >= (H - 1) * W; }

// a logical R x C matrix operand in its own store.  Layout variants of the (unwrapped) r x c view (all have the same C++ type):
//  N  rows 2..2+r of a (r+4) x c store                      (contiguous block; two guard rows above and below)
//  P  rows 2..2+r, columns 2..2+c of a (r+4) x (c+3) store   (padded sub-block)
//  T  N-variant of the c x r storage, .transposed();   PT  P-variant of the c x r storage, .transposed()
// wrapper: I identity, J = blas::J(view) (conjugated), H = blas::H(view of the C x R operand) (conjugate-transposed)
template<class T> struct Mat {
	long R, C; ML l; long r, c, W, H;
	multi::array<T, 2> st;
	std::vector<T>    raw0, before;
	std::vector<char> mask;
	char const* name;
	static long width(int b, long r, long c) { switch(b) { case BN: return std::max(c, 1L); case BP: return c + 3; case BT: return std::max(r, 1L); default: return r + 3; } }
	static long height(int b, long r, long c) { return (b == BN || b == BP ? r : c) + 4; }
	Mat(char const* nm, ML l_, long R_, long C_, long padv) : R(R_), C(C_), l(l_), r(l_.wrap == WH ? C_ : R_), c(l_.wrap == WH ? R_ : C_), W(width(l_.base, r, c)), H(height(l_.base, r, c)),
		st(multi::extensions_t<2>{H, W}, mk<T>(padv, padv + 12)), name(nm) {
		mask.assign(static_cast<std::size_t>(W * H), 0);
		for(long i = 0; i < r; ++i) { for(long j = 0; j < c; ++j) { mask[static_cast<std::size_t>(off(i, j))] = 1; } }
	}
	// raw offset of element (i, j) of the unwrapped view: the harness's own arithmetic, independent of the library's layout code
	long off(long i, long j) const { switch(l.base) { case BN: return (2 + i) * W + j; case BP: return (2 + i) * W + 2 + j; case BT: return (2 + j) * W + i; default: return (2 + j) * W + 2 + i; } }
	template<class F> void base_view(F&& f) {
		switch(l.base) {
			case BN: { auto&& v0 = st({2, 2 + r}, {0, c}); if(g_ib == 0) { f(v0); } else { auto&& v = v0.reindexed(g_ib, g_ib + 1); f(v); } break; }
			case BP: { auto&& v0 = st({2, 2 + r}, {2, 2 + c}); if(g_ib == 0) { f(v0); } else { auto&& v = v0.reindexed(g_ib, g_ib + 1); f(v); } break; }
			case BT: { auto&& v0 = st({2, 2 + c}, {0, r}).transposed(); if(g_ib == 0) { f(v0); } else { auto&& v = v0.reindexed(g_ib, g_ib + 1); f(v); } break; }
			default: { auto&& v0 = st({2, 2 + c}, {2, 2 + r}).transposed(); if(g_ib == 0) { f(v0); } else { auto&& v = v0.reindexed(g_ib, g_ib + 1); f(v); } break; }
		}
	}
	// f(view of logical extents R x C)
	template<bool Conj, class F> void view(F&& f) {
		base_view([&](auto& v) {
			if constexpr(is_cx<T>{} && Conj) {
				if(l.wrap == WJ) { auto&& w = blas::J(v); f(w); return; }
				if(l.wrap == WH) { auto&& w = blas::H(v); f(w); return; }
			}
			f(v);
		});
	}
	// writes the logical contents into the store, then reads them back through plain indexing (these read-back values are what the reference uses)
	template<class V, class G> void fill(V& v, G gen, Res& res) {
		T* d = st.data_elements();
		for(long i = 0; i < R; ++i) { for(long j = 0; j < C; ++j) { T x = gen(i, j); d[off(l.wrap == WH ? j : i, l.wrap == WH ? i : j)] = (l.wrap == WI ? x : cj(x)); } }
		raw0.assign(d, d + W * H);
		before = read(v);
		for(long i = 0; i < R; ++i) { for(long j = 0; j < C; ++j) { if(!(at(i, j) == gen(i, j))) { res.flag("view-mismatch", std::string(name) + "[" + std::to_string(i) + "][" + std::to_string(j) + "] reads " + vstr(at(i, j)) + " after " + vstr(gen(i, j)) + " was stored (harness or view defect)"); return; } } }
	}
	template<class V> std::vector<T> read(V& v) const {  // (indexing a const conjugated view does not compile on this tree)
		std::vector<T> o(static_cast<std::size_t>(R * C));
		if(R*C == 0) { return o; }
		auto const f0 = v.extension().first();
		for(long i = 0; i < R; ++i) { auto&& row = v[f0 + i]; auto const f1 = row.extension().first(); for(long j = 0; j < C; ++j) { o[static_cast<std::size_t>(i * C + j)] = static_cast<T>(row[f1 + j]); } }
		return o;
	}
	T at(long i, long j) const { return before[static_cast<std::size_t>(i * C + j)]; }
	void guards(Res& res) const {
		T const* d = st.data_elements();
		for(std::size_t p = 0; p < raw0.size(); ++p) {
			if(mask[p] == 0 && !(d[p] == raw0[p])) {
				res.flag("guard-damage", std::string("store of ") + name + " (" + std::to_string(H) + "x" + std::to_string(W) + "): element outside the view at offset " + std::to_string(p) + " was " + vstr(raw0[p]) + " now " + vstr(d[p]));
				for(std::size_t q = 0; q < raw0.size(); ++q) { if(mask[q] == 0 && !(d[q] == raw0[q]) && tripwire(static_cast<long>(q), W, H)) { res.escaped = true; } }
				break;
			}
		}
	}
	// output operand: logical contents (through plain indexing) == expect; nothing outside the view changed
	template<class V> void check_out(V& v, std::vector<T> const& expect, Res& res) const {
		std::vector<T> got = read(v);
		for(std::size_t p = 0; p < got.size(); ++p) {
			if(!(got[p] == expect[p])) {
				res.flag(got == before && !(expect == before) ? "output-untouched" : "wrong-result", std::string(name) + "[" + std::to_string(static_cast<long>(p) / C) + "][" + std::to_string(static_cast<long>(p) % C) + "] expected " + vstr(expect[p]) + " got " + vstr(got[p]) + " (was " + vstr(before[p]) + ")");
				break;
			}
		}
		guards(res);
	}
	// input operand: the whole store is bit-for-bit what it was
	void check_in(Res& res) const {
		T const* d = st.data_elements();
		for(std::size_t p = 0; p < raw0.size(); ++p) { if(mask[p] != 0 && !(d[p] == raw0[p])) { res.flag("input-modified", std::string("input ") + name + ": element at store offset " + std::to_string(p) + " was " + vstr(raw0[p]) + " now " + vstr(d[p])); break; } }
		guards(res);
	}
};

enum { VU, VS, VC, NVK };
static char const* const vname[] = {"unit", "stride2", "column"};
struct VL { int kind, wrap; };  // wrap: WI or WJ (= blas::C(v))
static std::string lname(VL l) { return l.wrap == WI ? std::string(vname[l.kind]) : std::string("C.") + vname[l.kind]; }
// layout class used in violation keys: unit or non-unit stride (the two non-unit variants differ only in the value of the stride)
static std::string cname(VL l) { return std::string(l.wrap == WI ? "" : "C.") + (l.kind == VU ? "unit" : "strided"); }
template<class T> std::vector<VL> vlayouts(bool conj_ok) {
	std::vector<VL> r;
	for(int w = 0; w < ((is_cx<T>{} && conj_ok) ? 2 : 1); ++w) { for(int k = 0; k < NVK; ++k) { r.push_back(VL{k, w}); } }
	return r;
}
// a logical vector of n elements:  unit: elements 3..3+n of a 1-D store;  stride2: every second element (strided(2)) of a 1-D store;  column: column 1, rows 2..2+n of an (n+4) x 3 store
template<class T> struct Vec {
	long n; VL l; long W, H;
	multi::array<T, 1> s1; multi::array<T, 2> s2;
	std::vector<T>    raw0, before;
	std::vector<char> mask;
	char const* name;
	Vec(char const* nm, VL l_, long n_, long padv) : n(n_), l(l_), W(l_.kind == VC ? 3 : 1), H(l_.kind == VU ? n_ + 6 : (l_.kind == VS ? 2 * n_ + 6 : n_ + 4)),
		s1(multi::extensions_t<1>{multi::iextension{l_.kind == VC ? 0 : H}}, mk<T>(padv, padv + 12)),
		s2(l_.kind == VC ? multi::extensions_t<2>{H, 3} : multi::extensions_t<2>{0, 0}, mk<T>(padv, padv + 12)), name(nm) {
		mask.assign(static_cast<std::size_t>(W * H), 0);
		for(long i = 0; i < n; ++i) { mask[static_cast<std::size_t>(off(i))] = 1; }
	}
	long off(long i) const { return l.kind == VU ? 3 + i : (l.kind == VS ? 3 + 2 * i : (2 + i) * 3 + 1); }
	T*       raw() { return l.kind == VC ? s2.data_elements() : s1.data_elements(); }
	T const* raw() const { return l.kind == VC ? s2.data_elements() : s1.data_elements(); }
	template<class F> void base_view(F&& f) {
		switch(l.kind) {
			case VU: { auto&& v = s1({3, 3 + n}); f(v); break; }
			case VS: { auto&& v = s1({3, 3 + 2 * n}).strided(2); f(v); break; }
			default: { auto&& v = (~s2)[1]({2, 2 + n}); f(v); break; }
		}
	}
	template<bool Conj, class F> void view(F&& f) {
		base_view([&](auto& v) {
			if constexpr(is_cx<T>{} && Conj) { if(l.wrap == WJ) { auto&& w = blas::C(v); f(w); return; } }
			f(v);
		});
	}
	template<class V, class G> void fill(V& v, G gen, Res& res) {
		T* d = raw();
		for(long i = 0; i < n; ++i) { T x = gen(i); d[off(i)] = (l.wrap == WI ? x : cj(x)); }
		raw0.assign(d, d + W * H);
		before = read(v);
		for(long i = 0; i < n; ++i) { if(!(at(i) == gen(i))) { res.flag("view-mismatch", std::string(name) + "[" + std::to_string(i) + "] reads " + vstr(at(i)) + " after " + vstr(gen(i)) + " was stored (harness or view defect)"); return; } }
	}
	template<class V> std::vector<T> read(V& v) const {
		std::vector<T> o(static_cast<std::size_t>(n));
		if(n == 0) { return o; }
		auto const f0 = v.extension().first();
		for(long i = 0; i < n; ++i) { o[static_cast<std::size_t>(i)] = static_cast<T>(v[f0 + i]); }
		return o;
	}
	T at(long i) const { return before[static_cast<std::size_t>(i)]; }
	void guards(Res& res) const {
		T const* d = raw();
		for(std::size_t p = 0; p < raw0.size(); ++p) {
			if(mask[p] == 0 && !(d[p] == raw0[p])) {
				res.flag("guard-damage", std::string("store of ") + name + ": element outside the view at offset " + std::to_string(p) + " of " + std::to_string(raw0.size()) + " was " + vstr(raw0[p]) + " now " + vstr(d[p]));
				for(std::size_t q = 0; q < raw0.size(); ++q) { if(mask[q] == 0 && !(d[q] == raw0[q]) && tripwire(static_cast<long>(q), W, H)) { res.escaped = true; } }
				break;
			}
		}
	}
	template<class V> void check_out(V& v, std::vector<T> const& expect, Res& res) const {
		std::vector<T> got = read(v);
		for(std::size_t p = 0; p < got.size(); ++p) {
			if(!(got[p] == expect[p])) {
				res.flag(got == before && !(expect == before) ? "output-untouched" : "wrong-result", std::string(name) + "[" + std::to_string(p) + "] expected " + vstr(expect[p]) + " got " + vstr(got[p]) + " (was " + vstr(before[p]) + ")");
				break;
			}
		}
		guards(res);
	}
	void check_in(Res& res) const {
		T const* d = raw();
		for(std::size_t p = 0; p < raw0.size(); ++p) { if(mask[p] != 0 && !(d[p] == raw0[p])) { res.flag("input-modified", std::string("input ") + name + ": element at store offset " + std::to_string(p) + " was " + vstr(raw0[p]) + " now " + vstr(d[p])); break; } }
		guards(res);
	}
};

// data patterns: small positive integers, nowhere zero, not symmetric under i <-> j, imaginary parts different from the real parts
template<class T> T genA(long i, long j) { return mk<T>(1 + i + 2 * j, 1 + 2 * i + j + ((i + j) % 2)); }
template<class T> T genB(long i, long j) { return mk<T>(2 + 3 * i + j, 3 + i + 2 * j); }
template<class T> T genC(long i, long j) { return mk<T>(5 + 2 * i + 3 * j, 4 + 3 * i + j); }
template<class T> T genX(long i) { return mk<T>(2 + i, 1 + 2 * i); }
template<class T> T genY(long i) { return mk<T>(3 + 2 * i, 5 + i); }
static constexpr long PAD_A = 4099, PAD_B = 8209, PAD_C = 16411;

// translate the result of guarded() into a Res; returns true when the call ran to completion (then the checks follow)
// out_elems: number of elements of the requested result.  BLAS refusing the call (xerbla) is a violation of its own ("not rejected by the adaptor, not computed
// either") whenever a result was requested; the numeric checks are then skipped, so that the class gets one key whatever alpha and beta are.  For an empty
// result nothing can be miscomputed and the property is silent: counted as correct.
static bool ran(int g, Res& res, long out_elems) {
	if(g == 1) { res.code = 1; return false; }
	if(g == 2) { res.code = 2; return false; }
	if(g == 3) { res.flag("foreign-assertion", g_assert); return false; }
	if(g_xerbla != 0 && out_elems > 0) { res.flag("blas-illegal-argument", std::string("the adaptor passed an illegal argument to BLAS, which refused the call: xerbla(") + g_xerbla_name + ", parameter " + std::to_string(g_xerbla) + ")"); return false; }
	return true;
}

static long g_sizes_max = 2;       // matrix dimensions 0..g_sizes_max
static long g_vec_max   = 9;       // vector lengths 0..g_vec_max
static bool g_thorough  = false;
struct SectionCount { std::string name; long n; };
static std::vector<SectionCount> g_sections;

// ================================================================================================ common pieces of the grids
// Violation keys name the *family* of spellings that reach the same entry point of the adaptor (the replay string keeps the exact spelling).
static std::string family(std::string const& form) {
	static std::map<std::string, std::string> const fam = {
		{"gemm.operator*", "gemm.assign"}, {"gemm.assign-rescaled", "gemm.assign"}, {"gemm.pluseq-rescaled", "gemm.pluseq"}, {"gemm.construct", "gemm.new"}, {"gemm.decay", "gemm.new"}, {"gemm.assign-to-array", "gemm.new"},
		{"gemv.construct", "gemv.new"}, {"gemv.decay", "gemv.new"}, {"gemv.operator%", "gemv.new"},
		{"dot.result-arg", "dot.result"}, {"dot.result-0d", "dot.result"}, {"dot.decay", "dot.value"}, {"dot.operator,", "dot.value"},
		{"axpy.operator+=", "axpy.inplace"}, {"axpy.operator-=", "axpy.inplace"}, {"axpy.pluseq", "axpy.range"}, {"axpy.minuseq", "axpy.range"}, {"axpy.operator+", "axpy.new"}, {"axpy.operator-", "axpy.new"},
		{"copy.operator<<", "copy.inplace"}, {"copy.construct", "copy.new"}, {"scal.operator*=", "scal.inplace"},
		{"nrm2.result-arg", "nrm2.result"}, {"nrm2.result-0d", "nrm2.result"}, {"nrm2.decay", "nrm2.value"}, {"nrm2.operators-abs", "nrm2.value"},
		{"iamax.iterators", "iamax"}, {"iamax.n", "iamax"},
		{"herk.fill-alpha", "herk.inplace"}, {"herk.alpha", "herk.both-triangles"}, {"herk.plain", "herk.both-triangles"}, {"herk.value-alpha", "herk.new"}, {"herk.value", "herk.new"},
		{"syrk.fill-alpha", "syrk.inplace"},
		{"trsm.side-fill-diag", "trsm"}, {"trsm.side-fill", "trsm"}, {"trsm.triangular-part", "trsm"}, {"trsm.operator/=", "trsm"}, {"trsm.operator|=", "trsm"}};
	auto it = fam.find(form);
	return it == fam.end() ? form : it->second;
}
template<class X, class Y> constexpr bool both_conj = blas::is_conjugated<std::decay_t<X>>{} && blas::is_conjugated<std::decay_t<Y>>{};
// scalar operands of a form: enumerated (n > 1) or implied by the form (n == 1, value fixed)
struct ScalSet { bool enumerated; int fixed; int count(int ns) const { return enumerated ? ns : 1; } int at(int i) const { return enumerated ? i : fixed; } };
static std::string sizes3(long m, long k, long n) { return "m" + std::to_string(m) + "k" + std::to_string(k) + "n" + std::to_string(n); }
static void note_section(std::string const& what, long g0) { g_sections.push_back({what, D.gidx - g0}); }
// a freshly returned array must have the mathematical extents and contents (for an empty result only emptiness is required)
template<class T, class Arr> void check_new2(Arr& r, long m, long n, std::vector<T> const& expect, Res& res) {
	if(m == 0 || n == 0) { if(r.num_elements() != 0) { res.flag("wrong-extents", "result should be empty, has " + std::to_string(r.num_elements()) + " elements"); } return; }
	if(r.size() != m || (~r).size() != n) { res.flag("wrong-extents", "result is " + std::to_string(r.size()) + "x" + std::to_string((~r).size()) + ", expected " + std::to_string(m) + "x" + std::to_string(n)); return; }
	if(m*n == 0) { return; }
	auto const rf0 = r.extension().first(); auto const rf1 = r[rf0].extension().first();   // position-wise: a new array may adopt the operands' index bases
	for(long i = 0; i < m; ++i) { for(long j = 0; j < n; ++j) { T g = static_cast<T>(r[rf0 + i][rf1 + j]); T e = expect[static_cast<std::size_t>(i * n + j)]; if(!(g == e)) { res.flag("wrong-result", "result[" + std::to_string(i) + "][" + std::to_string(j) + "] expected " + vstr(e) + " got " + vstr(g)); return; } } }
}
template<class T, class Arr> void check_new1(Arr& r, long n, std::vector<T> const& expect, Res& res) {
	if(r.size() != n) { res.flag("wrong-extents", "result has " + std::to_string(r.size()) + " elements, expected " + std::to_string(n)); return; }
	if(n == 0) { return; }
	auto const rf0 = r.extension().first();
	for(long i = 0; i < n; ++i) { T g = static_cast<T>(r[rf0 + i]); T e = expect[static_cast<std::size_t>(i)]; if(!(g == e)) { res.flag("wrong-result", "result[" + std::to_string(i) + "] expected " + vstr(e) + " got " + vstr(g)); return; } }
}

// ================================================================================================ GEMM
// C (m x n) <- alpha A (m x k) B (k x n) + beta C
template<class T> std::vector<T> ref_gemm(T alpha, Mat<T> const& A, Mat<T> const& B, T beta, Mat<T> const* C) {
	long m = A.R, k = A.C, n = B.C;
	std::vector<T> o(static_cast<std::size_t>(m * n));
	for(long i = 0; i < m; ++i) { for(long j = 0; j < n; ++j) {
		T s = mk<T>(0, 0);
		for(long p = 0; p < k; ++p) { s += A.at(i, p) * B.at(p, j); }
		o[static_cast<std::size_t>(i * n + j)] = alpha * s + (C != nullptr ? beta * C->at(i, j) : mk<T>(0, 0));
	} }
	return o;
}

// call(alpha, A, B, beta, C) performs the library call on an existing output view.  ConjC: output wrappers are part of the grid.
template<class T, bool ConjC, class Call>
void grid_gemm(std::string const& form, ScalSet sa, ScalSet sb, Call call, int outer = 1) {   // outer: a factor the call applies to the lazy range itself (f*gemm(alpha,A,B))
	if(!D.want(form, tcode<T>())) { return; }
	long const g0 = D.gidx;
	auto LA = mlayouts<T>(true), LB = mlayouts<T>(true), LC = mlayouts<T>(ConjC);
	int const ns = nscal<T>();
	for(long m = 0; m <= g_sizes_max; ++m) { for(long k = 0; k <= g_sizes_max; ++k) { for(long n = 0; n <= g_sizes_max; ++n) {
	for(ML la : LA) { for(ML lb : LB) { for(ML lc : LC) {
	for(int xa = 0; xa < sa.count(ns); ++xa) { for(int xb = 0; xb < sb.count(ns); ++xb) {
		int const ia = sa.at(xa), ib = sb.at(xb);
		D.step(m * 100 + k * 10 + n, m >= 1 && k >= 1 && n >= 1,
			[&] {
				Desc d;
				d.id = form + "/" + tcode<T>() + "/A=" + lname(la) + ",B=" + lname(lb) + ",C=" + lname(lc) + "/" + sizes3(m, k, n) + "/a=" + sc_name[ia] + ",b=" + sc_name[ib];
				d.keyprefix = family(form) + "|" + tname<T>() + "|A=" + cname(la) + ",B=" + cname(lb) + ",C=" + cname(lc) + "|m=" + szc(m) + ",k=" + szc(k) + ",n=" + szc(n) + "|beta" + sc_class(ib);
				d.fields = {{"operation", form + ": C(m x n) <- alpha A(m x k) B(k x n) + beta C"}, {"element_type", tname<T>()}, {"layouts", "A=" + lname(la) + " B=" + lname(lb) + " C=" + lname(lc)},
					{"sizes", "m=" + std::to_string(m) + " k=" + std::to_string(k) + " n=" + std::to_string(n)}, {"scalars", std::string("alpha=") + sc_name[ia] + (sa.enumerated ? "" : " (implied)") + " beta=" + sc_name[ib] + (sb.enumerated ? "" : " (implied)")}};
				return d;
			},
			[&] {
				Res res;
				T const alpha = scal_of<T>(ia), beta = scal_of<T>(ib);
				Mat<T> A("A", la, m, k, PAD_A), B("B", lb, k, n, PAD_B), C("C", lc, m, n, PAD_C);
				A.template view<true>([&](auto& a) { B.template view<true>([&](auto& b) { C.template view<ConjC>([&](auto& c) {
					A.fill(a, genA<T>, res); B.fill(b, genB<T>, res); C.fill(c, genC<T>, res);
					if(res.code != 0) { return; }
					auto expect = ref_gemm(alpha*mk<T>(outer, 0), A, B, beta, &C);
					if(!ran(guarded([&] { call(alpha, a, b, beta, c); }), res, m * n)) { return; }
					C.check_out(c, expect, res); A.check_in(res); B.check_in(res);
				}); }); });
				return res;
			});
	} } } } } } } }
	note_section(form + "<" + tname<T>() + ">: sizes (0.." + std::to_string(g_sizes_max) + ")^3 x layouts A " + std::to_string(LA.size()) + " x B " + std::to_string(LB.size()) + " x C " + std::to_string(LC.size()) + " x alpha " + std::to_string(sa.count(ns)) + " x beta " + std::to_string(sb.count(ns)), g0);
}
// call(alpha, A, B) returns a new owning array
template<class T, class Call>
void grid_gemm_new(std::string const& form, ScalSet sa, Call call) {
	if(!D.want(form, tcode<T>())) { return; }
	long const g0 = D.gidx;
	auto LA = mlayouts<T>(true), LB = mlayouts<T>(true);
	int const ns = nscal<T>();
	for(long m = 0; m <= g_sizes_max; ++m) { for(long k = 0; k <= g_sizes_max; ++k) { for(long n = 0; n <= g_sizes_max; ++n) {
	for(ML la : LA) { for(ML lb : LB) { for(int xa = 0; xa < sa.count(ns); ++xa) {
		int const ia = sa.at(xa);
		D.step(m * 100 + k * 10 + n, m >= 1 && k >= 1 && n >= 1,
			[&] {
				Desc d;
				d.id = form + "/" + tcode<T>() + "/A=" + lname(la) + ",B=" + lname(lb) + "/" + sizes3(m, k, n) + "/a=" + sc_name[ia];
				d.keyprefix = family(form) + "|" + tname<T>() + "|A=" + cname(la) + ",B=" + cname(lb) + "|m=" + szc(m) + ",k=" + szc(k) + ",n=" + szc(n) + "|alpha" + sc_class(ia);
				d.fields = {{"operation", form + ": new array (m x n) = alpha A(m x k) B(k x n)"}, {"element_type", tname<T>()}, {"layouts", "A=" + lname(la) + " B=" + lname(lb)},
					{"sizes", "m=" + std::to_string(m) + " k=" + std::to_string(k) + " n=" + std::to_string(n)}, {"scalars", std::string("alpha=") + sc_name[ia] + (sa.enumerated ? "" : " (implied)")}};
				return d;
			},
			[&] {
				Res res;
				T const alpha = scal_of<T>(ia);
				Mat<T> A("A", la, m, k, PAD_A), B("B", lb, k, n, PAD_B);
				A.template view<true>([&](auto& a) { B.template view<true>([&](auto& b) {
					A.fill(a, genA<T>, res); B.fill(b, genB<T>, res);
					if(res.code != 0) { return; }
					auto expect = ref_gemm<T>(alpha, A, B, mk<T>(0, 0), nullptr);
					multi::array<T, 2> out;
					if(!ran(guarded([&] { out = call(alpha, a, b); }), res, m * n)) { return; }
					check_new2<T>(out, m, n, expect, res); A.check_in(res); B.check_in(res);
				}); });
				return res;
			});
	} } } } } }
	note_section(form + "<" + tname<T>() + ">: sizes (0.." + std::to_string(g_sizes_max) + ")^3 x layouts A " + std::to_string(LA.size()) + " x B " + std::to_string(LB.size()) + " x alpha " + std::to_string(sa.count(ns)), g0);
}

// gemm on complex<float> is not instantiable on this tree: core.hpp:530 compares `*beta != 0.0` (complex<float> vs double)
template<class T> constexpr bool gemm_instantiable = !std::is_same_v<T, std::complex<float>>;
template<class T> void section_gemm() {
	if constexpr(gemm_instantiable<T>) {
		ScalSet const all{true, 0}, zero{false, 0}, one{false, 1};
		grid_gemm<T, true>("gemm.inplace", all, all, [](T alpha, auto& a, auto& b, T beta, auto& c) { blas::gemm(alpha, a, b, beta, c); });
		grid_gemm<T, false>("gemm.assign", all, zero, [](T alpha, auto& a, auto& b, T, auto& c) { c = blas::gemm(alpha, a, b); });
		grid_gemm<T, false>("gemm.pluseq", all, one, [](T alpha, auto& a, auto& b, T, auto& c) { c += blas::gemm(alpha, a, b); });
		// the lazy range re-scaled: both the range's own scale and the outer factor must end up in the product (seed C13f: the outer factor replaced the inner one)
		grid_gemm<T, false>("gemm.assign-rescaled", all, zero, [](T alpha, auto& a, auto& b, T, auto& c) { c = mk<T>(2, 0)*blas::gemm(alpha, a, b); }, 2);
		grid_gemm<T, false>("gemm.pluseq-rescaled", all, one, [](T alpha, auto& a, auto& b, T, auto& c) { c += mk<T>(2, 0)*blas::gemm(alpha, a, b); }, 2);
		grid_gemm<T, false>("gemm.operator*", one, zero, [](T, auto& a, auto& b, T, auto& c) { using blas::operators::operator*; c = a * b; });
		grid_gemm_new<T>("gemm.construct", all, [](T alpha, auto& a, auto& b) { multi::array<T, 2> r = blas::gemm(alpha, a, b); return r; });
		grid_gemm_new<T>("gemm.decay", all, [](T alpha, auto& a, auto& b) { auto r = +blas::gemm(alpha, a, b); return multi::array<T, 2>(std::move(r)); });
		grid_gemm_new<T>("gemm.assign-to-array", all, [](T alpha, auto& a, auto& b) { multi::array<T, 2> r({5, 1}, mk<T>(77, 78)); r = blas::gemm(alpha, a, b); return r; });
	}
}

// ================================================================================================ GEMV
// y (m) <- alpha M (m x n) x (n) + beta y
template<class T> std::vector<T> ref_gemv(T alpha, Mat<T> const& M, Vec<T> const& X, T beta, Vec<T> const* Y) {
	std::vector<T> o(static_cast<std::size_t>(M.R));
	for(long i = 0; i < M.R; ++i) { T s = mk<T>(0, 0); for(long j = 0; j < M.C; ++j) { s += M.at(i, j) * X.at(j); } o[static_cast<std::size_t>(i)] = alpha * s + (Y != nullptr ? beta * Y->at(i) : mk<T>(0, 0)); }
	return o;
}
template<class T, class Call>
void grid_gemv(std::string const& form, ScalSet sa, ScalSet sb, Call call) {
	if(!D.want(form, tcode<T>())) { return; }
	long const g0 = D.gidx;
	auto LM = mlayouts<T>(true); auto LX = vlayouts<T>(false), LY = vlayouts<T>(false);
	int const ns = nscal<T>();
	for(long m = 0; m <= g_sizes_max; ++m) { for(long n = 0; n <= g_sizes_max; ++n) {
	for(ML lm : LM) { for(VL lx : LX) { for(VL ly : LY) {
	for(int xa = 0; xa < sa.count(ns); ++xa) { for(int xb = 0; xb < sb.count(ns); ++xb) {
		int const ia = sa.at(xa), ib = sb.at(xb);
		D.step(m * 10 + n, m >= 1 && n >= 1,
			[&] {
				Desc d;
				d.id = form + "/" + tcode<T>() + "/M=" + lname(lm) + ",x=" + lname(lx) + ",y=" + lname(ly) + "/m" + std::to_string(m) + "n" + std::to_string(n) + "/a=" + sc_name[ia] + ",b=" + sc_name[ib];
				d.keyprefix = family(form) + "|" + tname<T>() + "|M=" + cname(lm) + ",x=" + cname(lx) + ",y=" + cname(ly) + "|m=" + szc(m) + ",n=" + szc(n) + "|beta" + sc_class(ib);
				d.fields = {{"operation", form + ": y(m) <- alpha M(m x n) x(n) + beta y"}, {"element_type", tname<T>()}, {"layouts", "M=" + lname(lm) + " x=" + lname(lx) + " y=" + lname(ly)},
					{"sizes", "m=" + std::to_string(m) + " n=" + std::to_string(n)}, {"scalars", std::string("alpha=") + sc_name[ia] + (sa.enumerated ? "" : " (implied)") + " beta=" + sc_name[ib] + (sb.enumerated ? "" : " (implied)")}};
				return d;
			},
			[&] {
				Res res;
				T const alpha = scal_of<T>(ia), beta = scal_of<T>(ib);
				Mat<T> M("M", lm, m, n, PAD_A); Vec<T> X("x", lx, n, PAD_B), Y("y", ly, m, PAD_C);
				M.template view<true>([&](auto& a) { X.template view<false>([&](auto& x) { Y.template view<false>([&](auto& y) {
					M.fill(a, genA<T>, res); X.fill(x, genX<T>, res); Y.fill(y, genY<T>, res);
					if(res.code != 0) { return; }
					auto expect = ref_gemv(alpha, M, X, beta, &Y);
					if(!ran(guarded([&] { call(alpha, a, x, beta, y); }), res, m)) { return; }
					Y.check_out(y, expect, res); M.check_in(res); X.check_in(res);
				}); }); });
				return res;
			});
	} } } } } } }
	note_section(form + "<" + tname<T>() + ">: sizes (0.." + std::to_string(g_sizes_max) + ")^2 x layouts M " + std::to_string(LM.size()) + " x x " + std::to_string(LX.size()) + " x y " + std::to_string(LY.size()) + " x alpha " + std::to_string(sa.count(ns)) + " x beta " + std::to_string(sb.count(ns)), g0);
}
template<class T, class Call>
void grid_gemv_new(std::string const& form, ScalSet sa, Call call) {
	if(!D.want(form, tcode<T>())) { return; }
	long const g0 = D.gidx;
	auto LM = mlayouts<T>(true); auto LX = vlayouts<T>(false);
	int const ns = nscal<T>();
	for(long m = 0; m <= g_sizes_max; ++m) { for(long n = 0; n <= g_sizes_max; ++n) {
	for(ML lm : LM) { for(VL lx : LX) { for(int xa = 0; xa < sa.count(ns); ++xa) {
		int const ia = sa.at(xa);
		D.step(m * 10 + n, m >= 1 && n >= 1,
			[&] {
				Desc d;
				d.id = form + "/" + tcode<T>() + "/M=" + lname(lm) + ",x=" + lname(lx) + "/m" + std::to_string(m) + "n" + std::to_string(n) + "/a=" + sc_name[ia];
				d.keyprefix = family(form) + "|" + tname<T>() + "|M=" + cname(lm) + ",x=" + cname(lx) + "|m=" + szc(m) + ",n=" + szc(n) + "|alpha" + sc_class(ia);
				d.fields = {{"operation", form + ": new array (m) = alpha M(m x n) x(n)"}, {"element_type", tname<T>()}, {"layouts", "M=" + lname(lm) + " x=" + lname(lx)},
					{"sizes", "m=" + std::to_string(m) + " n=" + std::to_string(n)}, {"scalars", std::string("alpha=") + sc_name[ia] + (sa.enumerated ? "" : " (implied)")}};
				return d;
			},
			[&] {
				Res res;
				T const alpha = scal_of<T>(ia);
				Mat<T> M("M", lm, m, n, PAD_A); Vec<T> X("x", lx, n, PAD_B);
				M.template view<true>([&](auto& a) { X.template view<false>([&](auto& x) {
					M.fill(a, genA<T>, res); X.fill(x, genX<T>, res);
					if(res.code != 0) { return; }
					auto expect = ref_gemv<T>(alpha, M, X, mk<T>(0, 0), nullptr);
					multi::array<T, 1> out;
					if(!ran(guarded([&] { out = call(alpha, a, x); }), res, m)) { return; }
					check_new1<T>(out, m, expect, res); M.check_in(res); X.check_in(res);
				}); });
				return res;
			});
	} } } } }
	note_section(form + "<" + tname<T>() + ">: sizes (0.." + std::to_string(g_sizes_max) + ")^2 x layouts M " + std::to_string(LM.size()) + " x x " + std::to_string(LX.size()) + " x alpha " + std::to_string(sa.count(ns)), g0);
}
template<class T> void section_gemv() {
	ScalSet const all{true, 0}, zero{false, 0}, one{false, 1};
	grid_gemv<T>("gemv.inplace", all, all, [](T alpha, auto& a, auto& x, T beta, auto& y) { blas::gemv(alpha, a, x, beta, y); });
	grid_gemv<T>("gemv.assign", all, zero, [](T alpha, auto& a, auto& x, T, auto& y) { y = blas::gemv(alpha, a, x); });
	grid_gemv<T>("gemv.pluseq", all, one, [](T alpha, auto& a, auto& x, T, auto& y) { y += blas::gemv(alpha, a, x); });
	grid_gemv_new<T>("gemv.construct", all, [](T alpha, auto& a, auto& x) { multi::array<T, 1> r = blas::gemv(alpha, a, x); return r; });
	grid_gemv_new<T>("gemv.decay", all, [](T alpha, auto& a, auto& x) { auto r = +blas::gemv(alpha, a, x); return multi::array<T, 1>(std::move(r)); });
	grid_gemv_new<T>("gemv.operator%", one, [](T, auto& a, auto& x) { using blas::operators::operator%; auto r = a % x; return multi::array<T, 1>(std::move(r)); });
}

// ================================================================================================ level 1: two vectors
// A scalar result (dot) is carried as complex<double>, which represents every value of the four element types exactly.
using cdbl = std::complex<double>;
template<class T> cdbl to_c(T v) { if constexpr(is_cx<T>{}) { return cdbl(static_cast<double>(v.real()), static_cast<double>(v.imag())); } else { return cdbl(static_cast<double>(v), 0.0); } }
static std::string cstr(cdbl v) { return vstr(v); }
struct V2Form { std::string form, opdesc; bool conj; ScalSet sa; bool xout, yout, scalar_out; };
// ref(alpha, X, Y, ex, ey) -> expected scalar;  call(alpha, x, y) -> scalar result (0 if none)
template<class T, bool Conj, class Ref, class Call>
void grid_v2(V2Form const& f, Ref ref, Call call) {
	if(!D.want(f.form, tcode<T>())) { return; }
	long const g0 = D.gidx;
	auto LX = vlayouts<T>(Conj), LY = vlayouts<T>(Conj);
	int const ns = nscal<T>();
	for(long n = 0; n <= g_vec_max; ++n) { for(VL lx : LX) { for(VL ly : LY) {
	if(lx.wrap != WI && ly.wrap != WI) { continue; }  // dot(C(x), C(y)) is a static_assert ("not implemented in blas")
	for(int xa = 0; xa < f.sa.count(ns); ++xa) {
		int const ia = f.sa.at(xa);
		D.step(n, n >= 1,
			[&] {
				Desc d;
				d.id = f.form + "/" + tcode<T>() + "/x=" + lname(lx) + ",y=" + lname(ly) + "/n" + std::to_string(n) + "/a=" + sc_name[ia];
				d.keyprefix = family(f.form) + "|" + tname<T>() + "|x=" + cname(lx) + ",y=" + cname(ly) + "|n=" + szc(n) + "|" + (f.sa.enumerated ? "alpha" + sc_class(ia) : std::string("-"));
				d.fields = {{"operation", f.form + ": " + f.opdesc}, {"element_type", tname<T>()}, {"layouts", "x=" + lname(lx) + " y=" + lname(ly)}, {"sizes", "n=" + std::to_string(n)}, {"scalars", f.sa.enumerated ? std::string("alpha=") + sc_name[ia] : std::string("none")}};
				return d;
			},
			[&] {
				Res res;
				T const alpha = scal_of<T>(ia);
				Vec<T> X("x", lx, n, PAD_A), Y("y", ly, n, PAD_B);
				X.template view<Conj>([&](auto& x) { Y.template view<Conj>([&](auto& y) {
					if constexpr(both_conj<decltype(x), decltype(y)>) { return; } else {   // (excluded from the grid above; this branch only keeps the combination from being instantiated)
					X.fill(x, genX<T>, res); Y.fill(y, genY<T>, res);
					if(res.code != 0) { return; }
					std::vector<T> ex = X.before, ey = Y.before;
					cdbl const es = ref(alpha, X, Y, ex, ey);
					cdbl gs(0, 0);
					if(!ran(guarded([&] { gs = call(alpha, x, y); }), res, f.scalar_out ? 1 : n)) { return; }
					if(f.scalar_out && !(gs == es)) { res.flag(gs == cdbl(-777, -778) ? "output-untouched" : "wrong-result", "result expected " + cstr(es) + " got " + cstr(gs)); }
					if(f.xout) { X.check_out(x, ex, res); } else { X.check_in(res); }
					if(f.yout) { Y.check_out(y, ey, res); } else { Y.check_in(res); }
					}
				}); });
				return res;
			});
	} } } }
	note_section(f.form + "<" + tname<T>() + ">: n 0.." + std::to_string(g_vec_max) + " x layouts x " + std::to_string(LX.size()) + " x y " + std::to_string(LY.size()) + (Conj && is_cx<T>{} ? " (minus both conjugated)" : "") + " x alpha " + std::to_string(f.sa.count(ns)), g0);
}
template<class T> T const SENT = mk<T>(-777, -778);   // initial value of caller-provided result variables

template<class T> void section_dot() {
	ScalSet const none{false, 1};
	auto ref = [](T, Vec<T> const& X, Vec<T> const& Y, std::vector<T>&, std::vector<T>&) { T s = mk<T>(0, 0); for(long i = 0; i < X.n; ++i) { s += X.at(i) * Y.at(i); } return to_c(s); };
	std::string const what = "r = sum_i x_i y_i (x or y possibly conjugated with blas::C)";
	grid_v2<T, true>({"dot.result-arg", what, true, none, false, false, true}, ref, [](T, auto& x, auto& y) { T r = SENT<T>; blas::dot(x, y, r); return to_c(r); });
	grid_v2<T, true>({"dot.result-0d", what, true, none, false, false, true}, ref, [](T, auto& x, auto& y) { T r = SENT<T>; blas::dot(x, y, multi::array_ref<T, 0>(r)); return to_c(r); });
	grid_v2<T, true>({"dot.value", what, true, none, false, false, true}, ref, [](T, auto& x, auto& y) { T r = blas::dot(x, y); return to_c(r); });
	grid_v2<T, true>({"dot.decay", what, true, none, false, false, true}, ref, [](T, auto& x, auto& y) { auto r = +blas::dot(x, y); return to_c(static_cast<T>(r)); });
	grid_v2<T, true>({"dot.operator,", what, true, none, false, false, true}, ref, [](T, auto& x, auto& y) { using blas::operators::operator,; T r = (x, y); return to_c(r); });
}
template<class T> void section_axpy() {
	ScalSet const all{true, 0}, one{false, 1};
	auto plus  = [](T alpha, Vec<T> const& X, Vec<T> const&, std::vector<T>&, std::vector<T>& ey) { for(long i = 0; i < X.n; ++i) { ey[static_cast<std::size_t>(i)] += alpha * X.at(i); } return cdbl(0, 0); };
	auto minus = [](T alpha, Vec<T> const& X, Vec<T> const&, std::vector<T>&, std::vector<T>& ey) { for(long i = 0; i < X.n; ++i) { ey[static_cast<std::size_t>(i)] -= alpha * X.at(i); } return cdbl(0, 0); };
	grid_v2<T, false>({"axpy.inplace", "y <- alpha x + y", false, all, false, true, false}, plus, [](T alpha, auto& x, auto& y) { blas::axpy(alpha, x, y); return cdbl(0, 0); });
	// (with a non-const lvalue view x, `y += blas::axpy(alpha, x)` selects the overload axpy(x, y) and does not compile; the range form needs a const x)
	grid_v2<T, false>({"axpy.pluseq", "y += blas::axpy(alpha, x)", false, all, false, true, false}, plus, [](T alpha, auto& x, auto& y) { y += blas::axpy(alpha, std::as_const(x)); return cdbl(0, 0); });
	grid_v2<T, false>({"axpy.minuseq", "y -= blas::axpy(alpha, x)", false, all, false, true, false}, minus, [](T alpha, auto& x, auto& y) { y -= blas::axpy(alpha, std::as_const(x)); return cdbl(0, 0); });
	grid_v2<T, false>({"axpy.operator+=", "y += x", false, one, false, true, false}, plus, [](T, auto& x, auto& y) { using blas::operators::operator+=; y += x; return cdbl(0, 0); });
	grid_v2<T, false>({"axpy.operator-=", "y -= x", false, one, false, true, false}, minus, [](T, auto& x, auto& y) { using blas::operators::operator-=; y -= x; return cdbl(0, 0); });
}
// x + y and x - y return new arrays
template<class T> void section_axpy_new() {
	for(int sign = 0; sign < 2; ++sign) {
		std::string const form = sign == 0 ? "axpy.operator+" : "axpy.operator-";
		if(!D.want(form, tcode<T>())) { continue; }
		long const g0 = D.gidx;
		auto LX = vlayouts<T>(false), LY = vlayouts<T>(false);
		for(long n = 0; n <= g_vec_max; ++n) { for(VL lx : LX) { for(VL ly : LY) {
			D.step(n, n >= 1,
				[&] {
					Desc d;
					d.id = form + "/" + tcode<T>() + "/x=" + lname(lx) + ",y=" + lname(ly) + "/n" + std::to_string(n) + "/-";
					d.keyprefix = family(form) + "|" + tname<T>() + "|x=" + cname(lx) + ",y=" + cname(ly) + "|n=" + szc(n) + "|-";
					d.fields = {{"operation", form + (sign == 0 ? ": new array = x + y" : ": new array = x - y")}, {"element_type", tname<T>()}, {"layouts", "x=" + lname(lx) + " y=" + lname(ly)}, {"sizes", "n=" + std::to_string(n)}, {"scalars", "none"}};
					return d;
				},
				[&] {
					Res res;
					Vec<T> X("x", lx, n, PAD_A), Y("y", ly, n, PAD_B);
					X.template view<false>([&](auto& x) { Y.template view<false>([&](auto& y) {
						X.fill(x, genX<T>, res); Y.fill(y, genY<T>, res);
						if(res.code != 0) { return; }
						std::vector<T> expect(static_cast<std::size_t>(n));
						for(long i = 0; i < n; ++i) { expect[static_cast<std::size_t>(i)] = sign == 0 ? X.at(i) + Y.at(i) : X.at(i) - Y.at(i); }
						multi::array<T, 1> out;
						if(!ran(guarded([&] { if(sign == 0) { using blas::operators::operator+; out = x + y; } else { using blas::operators::operator-; out = x - y; } }), res, n)) { return; }
						check_new1<T>(out, n, expect, res); X.check_in(res); Y.check_in(res);
					}); });
					return res;
				});
		} } }
		note_section(form + "<" + tname<T>() + ">: n 0.." + std::to_string(g_vec_max) + " x layouts x " + std::to_string(LX.size()) + " x y " + std::to_string(LY.size()), g0);
	}
}
template<class T> void section_copy_swap() {
	ScalSet const none{false, 1};
	auto cp = [](T, Vec<T> const& X, Vec<T> const&, std::vector<T>&, std::vector<T>& ey) { ey = X.before; return cdbl(0, 0); };
	auto sw = [](T, Vec<T> const& X, Vec<T> const& Y, std::vector<T>& ex, std::vector<T>& ey) { ex = Y.before; ey = X.before; return cdbl(0, 0); };
	grid_v2<T, false>({"copy.inplace", "y <- x", false, none, false, true, false}, cp, [](T, auto& x, auto& y) { blas::copy(x, y); return cdbl(0, 0); });
	grid_v2<T, false>({"copy.assign", "y = blas::copy(x)", false, none, false, true, false}, cp, [](T, auto& x, auto& y) { y = blas::copy(x); return cdbl(0, 0); });
	grid_v2<T, false>({"copy.operator<<", "y << x", false, none, false, true, false}, cp, [](T, auto& x, auto& y) { using blas::operators::operator<<; y << x; return cdbl(0, 0); });
	grid_v2<T, false>({"swap.inplace", "x <-> y", false, none, true, true, false}, sw, [](T, auto& x, auto& y) { blas::swap(x, y); return cdbl(0, 0); });
	// (x ^ y, the operator form of swap, does not compile on this tree)
}

// ================================================================================================ level 1: one vector
struct V1Form { std::string form, opdesc; ScalSet sa; bool xout, scalar_out; int variants; /* data variants per n: 1, or -1 = n+1 (iamax) */ double rel_tol; };
// gen(i, n, variant) -> x_i;  ref(alpha, X, ex, variant) -> expected scalar (NaN real part = unspecified);  call(alpha, x) -> scalar
template<class T, class Gen, class Ref, class Call>
void grid_v1(V1Form const& f, Gen gen, Ref ref, Call call) {
	if(!D.want(f.form, tcode<T>())) { return; }
	long const g0 = D.gidx;
	auto LX = vlayouts<T>(false);
	int const ns = nscal<T>();
	for(long n = 0; n <= g_vec_max; ++n) { for(VL lx : LX) { for(int xa = 0; xa < f.sa.count(ns); ++xa) { for(long var = 0; var < (f.variants == -1 ? n + 1 : 1); ++var) {
		int const ia = f.sa.at(xa);
		D.step(n, n >= 1,
			[&] {
				Desc d;
				d.id = f.form + "/" + tcode<T>() + "/x=" + lname(lx) + "/n" + std::to_string(n) + "/a=" + sc_name[ia] + ",v=" + std::to_string(var);
				d.keyprefix = family(f.form) + "|" + tname<T>() + "|x=" + cname(lx) + "|n=" + szc(n) + "|" + (f.sa.enumerated ? "alpha" + sc_class(ia) : std::string("-"));
				d.fields = {{"operation", f.form + ": " + f.opdesc}, {"element_type", tname<T>()}, {"layouts", "x=" + lname(lx)}, {"sizes", "n=" + std::to_string(n)}, {"scalars", f.sa.enumerated ? std::string("alpha=") + sc_name[ia] : std::string("none")}, {"data_variant", std::to_string(var)}};
				return d;
			},
			[&] {
				Res res;
				T const alpha = scal_of<T>(ia);
				Vec<T> X("x", lx, n, PAD_A);
				X.template view<false>([&](auto& x) {
					X.fill(x, [&](long i) { return gen(i, n, var); }, res);
					if(res.code != 0) { return; }
					std::vector<T> ex = X.before;
					cdbl const es = ref(alpha, X, ex, var);
					cdbl gs(0, 0);
					if(!ran(guarded([&] { gs = call(alpha, x); }), res, f.scalar_out ? 1 : n)) { return; }
					if(f.scalar_out && !std::isnan(es.real())) {
						bool ok = gs == es;
						if(!ok && f.rel_tol > 0) { ok = std::abs(gs - es) <= f.rel_tol * std::abs(es); }
						if(!ok) { res.flag(gs == cdbl(-777, -778) || gs == cdbl(-777, 0) ? "output-untouched" : "wrong-result", "result expected " + cstr(es) + " got " + cstr(gs)); }
					}
					if(f.xout) { X.check_out(x, ex, res); } else { X.check_in(res); }
				});
				return res;
			});
	} } } }
	note_section(f.form + "<" + tname<T>() + ">: n 0.." + std::to_string(g_vec_max) + " x layouts x " + std::to_string(LX.size()) + " x alpha " + std::to_string(f.sa.count(ns)) + (f.variants == -1 ? " x (n+1) data variants" : ""), g0);
}
// data with an integer Euclidean norm, all parts >= 1
template<class T> T gen_nrm(long i, long n, long) {
	static long const re[10][9] = {{0}, {3}, {3, 4}, {2, 3, 6}, {2, 4, 5, 6}, {1, 1, 1, 2, 3}, {1, 1, 1, 1, 2, 1}, {1, 1, 1, 1, 1, 2, 4}, {1, 1, 1, 1, 1, 1, 1, 3}, {1, 1, 1, 1, 1, 1, 1, 3, 3}};   // norms 3, 5, 7, 9, 4, 3, 5, 4, 5
	static long const cr[10][9] = {{0}, {3}, {1, 2}, {1, 1, 2}, {1, 1, 1, 1}, {1, 1, 1, 1, 1}, {1, 1, 1, 1, 1, 1}, {1, 1, 1, 1, 1, 1, 1}, {1, 1, 1, 1, 1, 1, 1, 1}, {1, 1, 1, 1, 1, 1, 1, 1, 1}};
	static long const ci[10][9] = {{0}, {4}, {2, 4}, {1, 1, 1}, {1, 1, 1, 3}, {1, 1, 1, 1, 4}, {1, 1, 1, 1, 1, 5}, {1, 1, 1, 1, 1, 1, 6}, {1, 1, 1, 1, 1, 1, 1, 7}, {1, 1, 1, 1, 1, 1, 1, 1, 8}};   // norms 5, 5, 3, 4, 5, 6, 7, 8, 9
	static_assert(sizeof(re)/sizeof(re[0]) == 10, "vector lengths 0..9");
	if constexpr(is_cx<T>{}) { return mk<T>(cr[n][i], ci[n][i]); } else { return mk<T>(re[n][i], 0); }
}
template<class T> T gen_plain(long i, long, long) { return genX<T>(i); }
// iamax data: variant v < n: the unique largest |re|+|im| is at position v; variant n: all elements equal (the first index wins)
template<class T> T gen_amax(long i, long n, long v) { if(v == n) { return mk<T>(2, 3); } return i == v ? mk<T>(9, 11) : mk<T>(1 + i, 2 + (i % 2)); }
template<class T> void section_level1_single() {
	using R = real_t<T>;
	ScalSet const all{true, 0}, none{false, 1};
	auto l1norm = [](T v) { if constexpr(is_cx<T>{}) { return std::abs(static_cast<double>(v.real())) + std::abs(static_cast<double>(v.imag())); } else { return std::abs(static_cast<double>(v)); } };
	grid_v1<T>({"scal.inplace", "x <- alpha x", all, true, false, 1, 0.0}, gen_plain<T>, [](T alpha, Vec<T> const& X, std::vector<T>& ex, long) { for(long i = 0; i < X.n; ++i) { ex[static_cast<std::size_t>(i)] = alpha * X.at(i); } return cdbl(0, 0); },
		[](T alpha, auto& x) { blas::scal(alpha, x); return cdbl(0, 0); });
	grid_v1<T>({"scal.operator*=", "x *= alpha", all, true, false, 1, 0.0}, gen_plain<T>, [](T alpha, Vec<T> const& X, std::vector<T>& ex, long) { for(long i = 0; i < X.n; ++i) { ex[static_cast<std::size_t>(i)] = alpha * X.at(i); } return cdbl(0, 0); },
		[](T alpha, auto& x) { using blas::operators::operator*=; x *= alpha; return cdbl(0, 0); });
	// nrm2: the data have integer norms 0, 3|5, 5, 7|3, 9|4; comparison is exact (tolerance 0)
	auto nrm = [](T, Vec<T> const& X, std::vector<T>&, long) { double s = 0; for(long i = 0; i < X.n; ++i) { s += std::norm(to_c(X.at(i))); } return cdbl(std::sqrt(s), 0); };
	grid_v1<T>({"nrm2.result-arg", "r = sqrt(sum |x_i|^2)", none, false, true, 1, 0.0}, gen_nrm<T>, nrm, [](T, auto& x) { R r = static_cast<R>(-777); blas::nrm2(x, r); return cdbl(static_cast<double>(r), 0); });
	grid_v1<T>({"nrm2.result-0d", "r = sqrt(sum |x_i|^2)", none, false, true, 1, 0.0}, gen_nrm<T>, nrm, [](T, auto& x) { R r = static_cast<R>(-777); blas::nrm2(x, multi::array_ref<R, 0>(r)); return cdbl(static_cast<double>(r), 0); });
	grid_v1<T>({"nrm2.value", "r = sqrt(sum |x_i|^2)", none, false, true, 1, 0.0}, gen_nrm<T>, nrm, [](T, auto& x) { R r = blas::nrm2(x); return cdbl(static_cast<double>(r), 0); });
	grid_v1<T>({"nrm2.decay", "r = sqrt(sum |x_i|^2)", none, false, true, 1, 0.0}, gen_nrm<T>, nrm, [](T, auto& x) { auto r = +blas::nrm2(x); return cdbl(static_cast<double>(r), 0); });
	grid_v1<T>({"nrm2.operators-abs", "r = sqrt(sum |x_i|^2)", none, false, true, 1, 0.0}, gen_nrm<T>, nrm, [](T, auto& x) { using blas::operators::abs; R r = abs(x); return cdbl(static_cast<double>(r), 0); });
	// asum (the value forms `R r = blas::asum(x)` / `+blas::asum(x)` do not compile for views on this tree)
	grid_v1<T>({"asum.result-arg", "r = sum |re x_i| + |im x_i|", none, false, true, 1, 0.0}, gen_plain<T>, [l1norm](T, Vec<T> const& X, std::vector<T>&, long) { double s = 0; for(long i = 0; i < X.n; ++i) { s += l1norm(X.at(i)); } return cdbl(s, 0); },
		[](T, auto& x) { R r = static_cast<R>(-777); blas::asum(x, r); return cdbl(static_cast<double>(r), 0); });
	// iamax(x) itself does not compile in an assertion-enabled build (iamax.hpp:27 `assert(! offset(x))`); the iterator forms do
	auto amax = [l1norm](T, Vec<T> const& X, std::vector<T>&, long) { if(X.n == 0) { return cdbl(std::nan(""), 0); } long b = 0; for(long i = 1; i < X.n; ++i) { if(l1norm(X.at(i)) > l1norm(X.at(b))) { b = i; } } return cdbl(static_cast<double>(b), 0); };
	grid_v1<T>({"iamax.iterators", "index of the first element of largest |re|+|im|", none, false, true, -1, 0.0}, gen_amax<T>, amax, [](T, auto& x) { auto i = blas::iamax(x.begin(), x.end()); return cdbl(static_cast<double>(i), 0); });
	grid_v1<T>({"iamax.n", "index of the first element of largest |re|+|im|", none, false, true, -1, 0.0}, gen_amax<T>, amax, [](T, auto& x) { auto i = blas::iamax_n(x.begin(), x.size()); return cdbl(static_cast<double>(i), 0); });
}
// copy into a new array
template<class T> void section_copy_new() {
	std::string const form = "copy.construct";
	if(!D.want(form, tcode<T>())) { return; }
	long const g0 = D.gidx;
	auto LX = vlayouts<T>(false);
	for(long n = 0; n <= g_vec_max; ++n) { for(VL lx : LX) {
		D.step(n, n >= 1,
			[&] {
				Desc d;
				d.id = form + "/" + tcode<T>() + "/x=" + lname(lx) + "/n" + std::to_string(n) + "/-";
				d.keyprefix = family(form) + "|" + tname<T>() + "|x=" + cname(lx) + "|n=" + szc(n) + "|-";
				d.fields = {{"operation", form + ": multi::array<T,1> r = blas::copy(x)"}, {"element_type", tname<T>()}, {"layouts", "x=" + lname(lx)}, {"sizes", "n=" + std::to_string(n)}, {"scalars", "none"}};
				return d;
			},
			[&] {
				Res res;
				Vec<T> X("x", lx, n, PAD_A);
				X.template view<false>([&](auto& x) {
					X.fill(x, genX<T>, res);
					if(res.code != 0) { return; }
					multi::array<T, 1> out;
					if(!ran(guarded([&] { multi::array<T, 1> r = blas::copy(x); out = std::move(r); }), res, n)) { return; }
					check_new1<T>(out, n, X.before, res); X.check_in(res);
				});
				return res;
			});
	} }
	note_section(form + "<" + tname<T>() + ">: n 0.." + std::to_string(g_vec_max) + " x layouts x " + std::to_string(LX.size()), g0);
}

// ================================================================================================ HERK / SYRK
// C (n x n), triangle(s) `fill` <- alpha A (n x k) A^H (herk; A^T for syrk) + beta C; the other triangle is not modified.
// For herk on complex elements alpha and beta are real, the diagonal of C is given real and stays real.
template<class T> T genCh(long i, long j) { return i == j ? mk<T>(5 + 5 * i, 0) : genC<T>(i, j); }
struct RkForm { std::string form, opdesc; bool herm; int tri; /* 0 lower, 1 upper, 2 both, -1 enumerate lower/upper */ ScalSet sa, sb; bool conjA, conjC; };
// call(fill, alpha, A, beta, C)
template<class T, bool ConjA, bool ConjC, class Call>
void grid_rk(RkForm const& f, Call call) {
	if(!D.want(f.form, tcode<T>())) { return; }
	long const g0 = D.gidx;
	auto LA = mlayouts<T>(ConjA), LC = mlayouts<T>(ConjC);
	bool const real_scalars = f.herm;                       // herk: alpha, beta in {0, 1, 2}
	int const ns = real_scalars ? 3 : nscal<T>();
	for(long n = 0; n <= g_sizes_max; ++n) { for(long k = 0; k <= g_sizes_max; ++k) {
	for(ML la : LA) { for(ML lc : LC) { for(int tri = (f.tri == -1 ? 0 : f.tri); tri <= (f.tri == -1 ? 1 : f.tri); ++tri) {
	for(int xa = 0; xa < f.sa.count(ns); ++xa) { for(int xb = 0; xb < f.sb.count(ns); ++xb) {
		int const ia = f.sa.at(xa), ib = f.sb.at(xb);
		char const* const trn = tri == 0 ? "lower" : (tri == 1 ? "upper" : "both");
		D.step(n * 10 + k, n >= 1 && k >= 1,
			[&] {
				Desc d;
				d.id = f.form + "/" + tcode<T>() + "/A=" + lname(la) + ",C=" + lname(lc) + "/n" + std::to_string(n) + "k" + std::to_string(k) + "/a=" + sc_name[ia] + ",b=" + sc_name[ib] + "," + trn;
				d.keyprefix = family(f.form) + "|" + tname<T>() + "|A=" + cname(la) + ",C=" + cname(lc) + "," + trn + "|n=" + szc(n) + ",k=" + szc(k) + "|beta" + sc_class(ib);
				d.fields = {{"operation", f.form + ": " + f.opdesc}, {"element_type", tname<T>()}, {"layouts", "A=" + lname(la) + " C=" + lname(lc) + " triangle=" + trn}, {"sizes", "n=" + std::to_string(n) + " k=" + std::to_string(k)},
					{"scalars", std::string("alpha=") + sc_name[ia] + (f.sa.enumerated ? "" : " (implied)") + " beta=" + sc_name[ib] + (f.sb.enumerated ? "" : " (implied)")}};
				return d;
			},
			[&] {
				Res res;
				T const alpha = scal_of<T>(ia), beta = scal_of<T>(ib);
				Mat<T> A("A", la, n, k, PAD_A), C("C", lc, n, n, PAD_C);
				A.template view<ConjA>([&](auto& a) { C.template view<ConjC>([&](auto& c) {
					A.fill(a, genA<T>, res); C.fill(c, genCh<T>, res);
					if(res.code != 0) { return; }
					std::vector<T> expect = C.before;
					for(long i = 0; i < n; ++i) { for(long j = 0; j < n; ++j) {
						if(!(tri == 2 || (tri == 0 && i >= j) || (tri == 1 && i <= j))) { continue; }
						T s = mk<T>(0, 0);
						for(long p = 0; p < k; ++p) { s += A.at(i, p) * (f.herm ? cj(A.at(j, p)) : A.at(j, p)); }
						expect[static_cast<std::size_t>(i * n + j)] = alpha * s + beta * C.at(i, j);
					} }
					blas::filling const fl = tri == 0 ? blas::filling::lower : blas::filling::upper;
					if(!ran(guarded([&] { call(fl, alpha, a, beta, c); }), res, n * n)) { return; }
					C.check_out(c, expect, res); A.check_in(res);
				}); });
				return res;
			});
	} } } } } } }
	note_section(f.form + "<" + tname<T>() + ">: sizes (0.." + std::to_string(g_sizes_max) + ")^2 x layouts A " + std::to_string(LA.size()) + " x C " + std::to_string(LC.size()) + " x triangles " + (f.tri == -1 ? "2" : "1") + " x alpha " + std::to_string(f.sa.count(ns)) + " x beta " + std::to_string(f.sb.count(ns)), g0);
}
template<class T> void section_rk() {
	using R = real_t<T>;
	ScalSet const all{true, 0}, zero{false, 0}, one{false, 1};
	auto re = [](T v) { if constexpr(is_cx<T>{}) { return v.real(); } else { return v; } };
	// herk (for real element types the library forwards to syrk).  C is passed as an rvalue view: with an lvalue view the real (syrk) path does not compile.
	std::string const hd = "C(n x n)[triangle] <- alpha A(n x k) A^H + beta C";
	grid_rk<T, true, true>({"herk.inplace", hd, true, -1, all, all, true, true}, [re](blas::filling fl, T alpha, auto& a, T beta, auto& c) { blas::herk(fl, static_cast<R>(re(alpha)), a, static_cast<R>(re(beta)), std::move(c)); });
	grid_rk<T, true, true>({"herk.fill-alpha", hd, true, -1, all, zero, true, true}, [re](blas::filling fl, T alpha, auto& a, T, auto& c) { blas::herk(fl, static_cast<R>(re(alpha)), a, std::move(c)); });
	grid_rk<T, true, true>({"herk.alpha", "C(n x n) <- alpha A(n x k) A^H (both triangles)", true, 2, all, zero, true, true}, [re](blas::filling, T alpha, auto& a, T, auto& c) { blas::herk(static_cast<R>(re(alpha)), a, std::move(c)); });
	if constexpr(!std::is_same_v<T, std::complex<float>>) {  // herk(A, C) passes alpha = 1.0 (double): no matching core::herk for complex<float>
		grid_rk<T, true, true>({"herk.plain", "C(n x n) <- A(n x k) A^H (both triangles)", true, 2, one, zero, true, true}, [](blas::filling, T, auto& a, T, auto& c) { blas::herk(a, std::move(c)); });
	}
	// syrk (no conjugated operands: does not compile)
	std::string const sd = "C(n x n)[triangle] <- alpha A(n x k) A^T + beta C";
	grid_rk<T, false, false>({"syrk.inplace", sd, false, -1, all, all, false, false}, [](blas::filling fl, T alpha, auto& a, T beta, auto& c) { blas::syrk(fl, alpha, a, beta, std::move(c)); });
	grid_rk<T, false, false>({"syrk.fill-alpha", sd, false, -1, all, zero, false, false}, [](blas::filling fl, T alpha, auto& a, T, auto& c) { blas::syrk(fl, alpha, a, std::move(c)); });
}
// herk returning a new array
template<class T> void section_herk_new() {
	using R = real_t<T>;
	for(int variant = 0; variant < 2; ++variant) {
		std::string const form = variant == 0 ? "herk.value-alpha" : "herk.value";
		if(variant == 1 && std::is_same_v<T, std::complex<float>>) { continue; }
		if(!D.want(form, tcode<T>())) { continue; }
		long const g0 = D.gidx;
		auto LA = mlayouts<T>(true);
		for(long n = 0; n <= g_sizes_max; ++n) { for(long k = 0; k <= g_sizes_max; ++k) { for(ML la : LA) { for(int ia = (variant == 0 ? 0 : 1); ia < (variant == 0 ? 3 : 2); ++ia) {
			D.step(n * 10 + k, n >= 1 && k >= 1,
				[&] {
					Desc d;
					d.id = form + "/" + tcode<T>() + "/A=" + lname(la) + "/n" + std::to_string(n) + "k" + std::to_string(k) + "/a=" + sc_name[ia];
					d.keyprefix = family(form) + "|" + tname<T>() + "|A=" + cname(la) + "|n=" + szc(n) + ",k=" + szc(k) + "|alpha" + sc_class(ia);
					d.fields = {{"operation", form + ": new array (n x n) = alpha A(n x k) A^H"}, {"element_type", tname<T>()}, {"layouts", "A=" + lname(la)}, {"sizes", "n=" + std::to_string(n) + " k=" + std::to_string(k)}, {"scalars", std::string("alpha=") + sc_name[ia]}};
					return d;
				},
				[&] {
					Res res;
					T const alpha = scal_of<T>(ia);
					Mat<T> A("A", la, n, k, PAD_A);
					A.template view<true>([&](auto& a) {
						A.fill(a, genA<T>, res);
						if(res.code != 0) { return; }
						std::vector<T> expect(static_cast<std::size_t>(n * n));
						for(long i = 0; i < n; ++i) { for(long j = 0; j < n; ++j) { T s = mk<T>(0, 0); for(long p = 0; p < k; ++p) { s += A.at(i, p) * cj(A.at(j, p)); } expect[static_cast<std::size_t>(i * n + j)] = alpha * s; } }
						multi::array<T, 2> out;
						if(!ran(guarded([&] {
							if constexpr(!std::is_same_v<T, std::complex<float>>) { if(variant == 1) { multi::array<T, 2> r = blas::herk(a); out = std::move(r); return; } }
							R ra; if constexpr(is_cx<T>{}) { ra = alpha.real(); } else { ra = alpha; }
							multi::array<T, 2> r = blas::herk(ra, a); out = std::move(r);
						}), res, n * n)) { return; }
						check_new2<T>(out, n, n, expect, res); A.check_in(res);
					});
					return res;
				});
		} } } }
		note_section(form + "<" + tname<T>() + ">: sizes (0.." + std::to_string(g_sizes_max) + ")^2 x layouts A " + std::to_string(LA.size()) + " x alpha " + (variant == 0 ? "3" : "1"), g0);
	}
}

// ================================================================================================ TRSM
// side left:  B (m x n) <- alpha op(A)^-1 B, A (m x m);   side right:  B <- alpha B op(A)^-1, A (n x n).
// `fill` says which triangle of A is used (the other one holds non-zero junk that must be ignored); diag unit: the stored diagonal is ignored as well.
// Data: off-diagonal small integers, diagonal in {2, 1, 4} (complex: {2, 2i, 1}): every quotient is a dyadic rational, the reference and BLAS are both exact.
template<class T> T trsm_diag(long i) { if constexpr(is_cx<T>{}) { return i % 3 == 0 ? mk<T>(2, 0) : (i % 3 == 1 ? mk<T>(0, 2) : mk<T>(1, 0)); } else { return i % 3 == 0 ? mk<T>(2, 0) : (i % 3 == 1 ? mk<T>(1, 0) : mk<T>(4, 0)); } }
template<class T> T genTA(long i, long j) { return i == j ? trsm_diag<T>(i) : genA<T>(i, j); }
template<class T> T exact_inv(T d) {  // d is real or purely imaginary, a power of two in magnitude
	if constexpr(is_cx<T>{}) { using R = real_t<T>; return d.imag() == 0 ? T(R(1) / d.real(), R(0)) : T(R(0), -R(1) / d.imag()); } else { return T(1) / d; }
}
struct TrsmForm { std::string form, opdesc; bool enum_diag; int side_fixed, fill_fixed; /* -1: enumerate */ ScalSet sa; };
// call(side, fill, diag, alpha, A, B)
template<class T, class Call>
void grid_trsm(TrsmForm const& f, Call call) {
	if(!D.want(f.form, tcode<T>())) { return; }
	long const g0 = D.gidx;
	auto LA = mlayouts<T>(true), LB = mlayouts<T>(true);
	int const ns = nscal<T>();
	long cnt_layouts = 0;
	for(long m = 0; m <= g_sizes_max; ++m) { for(long n = 0; n <= g_sizes_max; ++n) {
	for(ML la : LA) { for(ML lb : LB) {
	if(la.wrap != WI && lb.wrap != WI) { continue; }   // A and B both conjugated: trsm.hpp:107 does not compile (`bbase`)
	if(m == 0 && n == 0) { ++cnt_layouts; }
	for(int side = (f.side_fixed == -1 ? 0 : f.side_fixed); side <= (f.side_fixed == -1 ? 1 : f.side_fixed); ++side) {
	for(int fill = (f.fill_fixed == -1 ? 0 : f.fill_fixed); fill <= (f.fill_fixed == -1 ? 1 : f.fill_fixed); ++fill) {
	for(int unit = 0; unit < (f.enum_diag ? 2 : 1); ++unit) { for(int xa = 0; xa < f.sa.count(ns); ++xa) {
		int const ia = f.sa.at(xa);
		std::string const sfd = std::string(side == 0 ? "left" : "right") + "," + (fill == 0 ? "lower" : "upper") + "," + (unit != 0 ? "unit" : "nonunit");
		D.step(m * 10 + n, m >= 1 && n >= 1,
			[&] {
				Desc d;
				d.id = f.form + "/" + tcode<T>() + "/A=" + lname(la) + ",B=" + lname(lb) + "/m" + std::to_string(m) + "n" + std::to_string(n) + "/a=" + sc_name[ia] + "," + sfd;
				d.keyprefix = family(f.form) + "|" + tname<T>() + "|A=" + cname(la) + ",B=" + cname(lb) + "," + sfd + "|m=" + szc(m) + ",n=" + szc(n) + "|alpha" + sc_class(ia);
				d.fields = {{"operation", f.form + ": " + f.opdesc}, {"element_type", tname<T>()}, {"layouts", "A=" + lname(la) + " B=" + lname(lb)}, {"side_fill_diag", sfd}, {"sizes", "m=" + std::to_string(m) + " n=" + std::to_string(n)},
					{"scalars", std::string("alpha=") + sc_name[ia] + (f.sa.enumerated ? "" : " (implied)")}};
				return d;
			},
			[&] {
				Res res;
				T const alpha = scal_of<T>(ia);
				long const p = side == 0 ? m : n;
				Mat<T> A("A", la, p, p, PAD_A), B("B", lb, m, n, PAD_B);
				A.template view<true>([&](auto& a) { B.template view<true>([&](auto& b) {
					if constexpr(both_conj<decltype(a), decltype(b)>) { return; } else {
					A.fill(a, genTA<T>, res); B.fill(b, genB<T>, res);
					if(res.code != 0) { return; }
					// the triangular matrix that the call denotes
					auto tr = [&](long i, long j) { bool in = fill == 0 ? i >= j : i <= j; if(!in) { return mk<T>(0, 0); } if(i == j && unit != 0) { return mk<T>(1, 0); } return A.at(i, j); };
					std::vector<T> expect(static_cast<std::size_t>(m * n));
					// solve L z = alpha r for a lower triangular (forward) or upper triangular (backward) p x p system L(i, j)
					auto solve = [&](auto L, bool lower, std::vector<T> rhs) {
						std::vector<T> z(static_cast<std::size_t>(p));
						for(long s = 0; s < p; ++s) {
							long i = lower ? s : p - 1 - s;
							T acc = alpha * rhs[static_cast<std::size_t>(i)];
							for(long j = 0; j < p; ++j) { if(j != i && (lower ? j < i : j > i)) { acc -= L(i, j) * z[static_cast<std::size_t>(j)]; } }
							z[static_cast<std::size_t>(i)] = acc * exact_inv(L(i, i));
						}
						return z;
					};
					if(side == 0) {  // tri X = alpha B, column by column
						for(long c = 0; c < n; ++c) { std::vector<T> rhs(static_cast<std::size_t>(m)); for(long i = 0; i < m; ++i) { rhs[static_cast<std::size_t>(i)] = B.at(i, c); } auto z = solve(tr, fill == 0, rhs); for(long i = 0; i < m; ++i) { expect[static_cast<std::size_t>(i * n + c)] = z[static_cast<std::size_t>(i)]; } }
					} else {         // X tri = alpha B  <=>  tri^T X^T = alpha B^T, row by row
						auto trT = [&](long i, long j) { return tr(j, i); };
						for(long r = 0; r < m; ++r) { std::vector<T> rhs(static_cast<std::size_t>(n)); for(long j = 0; j < n; ++j) { rhs[static_cast<std::size_t>(j)] = B.at(r, j); } auto z = solve(trT, fill != 0, rhs); for(long j = 0; j < n; ++j) { expect[static_cast<std::size_t>(r * n + j)] = z[static_cast<std::size_t>(j)]; } }
					}
					if(!ran(guarded([&] { call(side == 0 ? blas::side::left : blas::side::right, fill == 0 ? blas::filling::lower : blas::filling::upper, unit != 0 ? blas::diagonal::unit : blas::diagonal::non_unit, alpha, a, b); }), res, m * n)) { return; }
					B.check_out(b, expect, res); A.check_in(res);
					}
				}); });
				return res;
			});
	} } } } } } } }
	note_section(f.form + "<" + tname<T>() + ">: sizes (0.." + std::to_string(g_sizes_max) + ")^2 x layout pairs (A, B) " + std::to_string(cnt_layouts) + " x side " + (f.side_fixed == -1 ? "2" : "1") + " x fill " + (f.fill_fixed == -1 ? "2" : "1") + " x diag " + (f.enum_diag ? "2" : "1") + " x alpha " + std::to_string(f.sa.count(ns)), g0);
}
template<class T> void section_trsm() {
	ScalSet const all{true, 0}, one{false, 1};
	std::string const td = "B(m x n) <- alpha op(A)^-1 B (left) or alpha B op(A)^-1 (right)";
	grid_trsm<T>({"trsm.side-fill-diag", td, true, -1, -1, all}, [](blas::side s, blas::filling fl, blas::diagonal dg, T alpha, auto& a, auto& b) { blas::trsm(s, fl, dg, alpha, a, b); });
	grid_trsm<T>({"trsm.side-fill", td, false, -1, -1, all}, [](blas::side s, blas::filling fl, blas::diagonal, T alpha, auto& a, auto& b) { blas::trsm(s, fl, alpha, a, b); });
	grid_trsm<T>({"trsm.triangular-part", td, false, -1, -1, all}, [](blas::side s, blas::filling fl, blas::diagonal, T alpha, auto& a, auto& b) { if(fl == blas::filling::lower) { blas::trsm(s, alpha, blas::L(a), b); } else { blas::trsm(s, alpha, blas::U(a), b); } });
	grid_trsm<T>({"trsm.operator/=", "B /= U(A) or L(A)  (B <- B A^-1)", false, 1, -1, one}, [](blas::side, blas::filling fl, blas::diagonal, T, auto& a, auto& b) { using namespace blas::operators; if(fl == blas::filling::lower) { b /= L(a); } else { b /= U(a); } });
	grid_trsm<T>({"trsm.operator|=", "B |= U(A) or L(A)  (B <- A^-1 B)", false, 0, -1, one}, [](blas::side, blas::filling fl, blas::diagonal, T, auto& a, auto& b) { using namespace blas::operators; if(fl == blas::filling::lower) { b |= L(a); } else { b |= U(a); } });
}

// ================================================================================================ main
template<class T> void level1_sections() { section_dot<T>(); section_axpy<T>(); section_axpy_new<T>(); section_copy_swap<T>(); section_copy_new<T>(); section_level1_single<T>(); }
template<class T> void all_sections() {
	section_gemm<T>();
	section_gemv<T>();
	level1_sections<T>();
	section_rk<T>(); section_herk_new<T>();
	section_trsm<T>();
}

int main(int argc, char** argv) {
	mc::Args args(argc, argv);
	g_thorough = args.get("tier", "quick") == "thorough";
	g_sizes_max = args.geti("maxsize", g_thorough ? 3 : 2);
	g_ib = args.geti("rebase", 0);
	g_vec_max   = args.geti("maxvec", 9);   // past the unrolling widths (4,5,6,7,8) of reference and optimised level-1 kernels
	mc::set_deadline(static_cast<double>(args.geti("deadline", 3000)));
	D.init();
	D.nshards = std::max(1L, args.geti("nshards", 1)); D.shard = args.geti("shard", 0) % D.nshards; D.batch = std::max(1L, args.geti("batch", 256));
	D.only = args.get("only", "");
	std::string rp = args.get("replay", args.get("replay-trace", ""));
	if(!rp.empty()) { D.mode = Driver::REPLAY; D.replay = rp; D.repeat = args.geti("repeat", 1); g_sizes_max = 3;
		// tag = the digits of the 4th '/'-separated component (the sizes)
		std::vector<std::string> parts; { std::istringstream is(rp); std::string t; while(std::getline(is, t, '/')) { parts.push_back(t); } }
		long tag = 0; if(parts.size() >= 4) { for(char ch : parts[3]) { if(ch >= '0' && ch <= '9') { tag = tag * 10 + (ch - '0'); } } }
		D.replay_tag = tag;
	}

	all_sections<double>(); all_sections<std::complex<double>>();
	if(g_thorough || D.mode == Driver::REPLAY) { all_sections<float>(); all_sections<std::complex<float>>(); }
	else { level1_sections<float>(); level1_sections<std::complex<float>>(); }   // quick: the single-precision level-1 entry points (separate code paths in core.hpp) with the full vector-length range
	D.finish_child();

	if(D.mode == Driver::REPLAY) {
		if(!D.replay_found) { std::printf("REPLAY: no configuration with this id in the grid\n"); return 2; }
		Res const& r = D.replay_res;
		if(r.code == 3) { std::printf("REPLAY VIOLATION %s|%s %s\n", D.replay_desc.keyprefix.c_str(), r.keysym().c_str(), Driver::record(D.replay_desc, r).c_str()); return 1; }
		std::printf("REPLAY OK (%s)\n", r.code == 0 ? "correct" : (r.code == 1 ? ("rejected by exception: " + g_exc.substr(0, 300)).c_str() : (std::string("rejected by assertion: ") + g_assert).c_str()));
		return 0;
	}
	mc::R.add("evaluations", D.mine); mc::R.add("distinct_nontrivial", D.nontrivial);
	mc::R.add("correct", D.sh->n_correct); mc::R.add("rejected", D.sh->n_rej_exc + D.sh->n_rej_assert);
	mc::R.add("rejected_by_exception", D.sh->n_rej_exc); mc::R.add("rejected_by_assertion", D.sh->n_rej_assert);
	mc::R.add("violating_configurations", D.sh->n_viol); mc::R.add("child_deaths", D.deaths);
	if(D.sh->n_correct > 0) { mc::R.outcome("correct"); } if(D.sh->n_rej_exc > 0) { mc::R.outcome("rejected-by-exception"); } if(D.sh->n_rej_assert > 0) { mc::R.outcome("rejected-by-assertion"); }
	for(auto const& kv : mc::R.viol) { mc::R.outcome(kv.first.substr(kv.first.rfind('|') + 1)); }
	if(D.shard == 0) {
		mc::R.add("grid_configurations", D.gidx);
		mc::R.note(std::string("tier ") + (g_thorough ? "thorough" : "quick") + ": matrix dimensions 0.." + std::to_string(g_sizes_max) + ", vector lengths 0.." + std::to_string(g_vec_max) + ", element types " + (g_thorough ? "double, complex<double>, float, complex<float>" : "double, complex<double> (+ float, complex<float> for the level-1 operations)") + "; scalars {0,1,2} (+ {i, 1+2i} for complex); every combination is executed");
		mc::R.note("not instantiable on this tree (compile probes, hard errors, therefore excluded at compile time): every gemm form for complex<float> (core.hpp:530 `*beta != 0.0`); blas::iamax(x) in assertion-enabled builds (iamax.hpp:27 `assert(! offset(x))`; the iterator forms are used); "
			"value forms of asum for views (asum.hpp:48); x ^ y (swap operator); y += alpha*x (axpy.hpp:156 returns a view by value); syrk and real herk with an lvalue output view (syrk.hpp:35 returns by value; an rvalue view is passed); "
			"trsm with A and B both conjugated (trsm.hpp:107 `bbase`); herk(A, C) and herk(A) for complex<float> (alpha = 1.0 is a double); conjugated operands of gemv's x/y, axpy, scal, copy, swap, nrm2, asum, syrk");
		for(auto const& s : g_sections) { mc::R.note(s.name + " = " + std::to_string(s.n) + " configurations"); }
	}
	mc::R.emit(stdout);
	return 0;
}
