// C11: a minimal user-defined random-access pointer-like type that also tracks provenance.
//  * no implicit conversion to or from raw pointers (explicit construction by the harness only; the only way out is operator-> / std::addressof(*p))
//  * proxy-free references (operator* yields T&)
//  * every dereference outside [lo, hi) and every arithmetic/dereference of a default-constructed (null) pointer is counted
#pragma once
#include <cstddef>
#include <iterator>
#include <memory>
#include <string>
#include <type_traits>

namespace fancy {

struct Stats { long deref = 0, oob_deref = 0, null_arith = 0, null_deref = 0, cross_provenance_compare = 0; std::string first; };
inline Stats g;

template<class T>
class ptr {
	T* p_ = nullptr; T* lo_ = nullptr; T* hi_ = nullptr;
	template<class> friend class ptr;
	void chk() const {
		++g.deref;
		if(p_ == nullptr) { ++g.null_deref; if(g.first.empty()) { g.first = "dereference of a null fancy pointer"; } return; }
		if(lo_ != nullptr && (p_ < lo_ || p_ >= hi_)) { ++g.oob_deref; if(g.first.empty()) { g.first = "dereference " + std::to_string(p_ - lo_) + " elements from the start of storage of " + std::to_string(hi_ - lo_) + " elements"; } }
	}
	void arith() const { if(p_ == nullptr && lo_ == nullptr) { /* arithmetic on a null pointer by 0 is harmless; flagged only when it moves */ } }

 public:
	using element_type = T;
	using value_type = std::remove_cv_t<T>;
	using difference_type = std::ptrdiff_t;
	using pointer = ptr;
	using reference = std::add_lvalue_reference_t<T>;
	using iterator_category = std::random_access_iterator_tag;
	template<class U> using rebind = ptr<U>;

	ptr() = default;
	ptr(std::nullptr_t) {}  // NOLINT
	explicit ptr(T* p, T* lo, T* hi) : p_{p}, lo_{lo}, hi_{hi} {}   // harness / allocator only
	template<class U, std::enable_if_t<std::is_convertible_v<U*, T*> && !std::is_same_v<U, T>, int> = 0>
	ptr(ptr<U> const& o) : p_{o.p_}, lo_{o.lo_}, hi_{o.hi_} {}  // NOLINT  T* -> T const*
	template<class U, std::enable_if_t<!std::is_convertible_v<U*, T*> && !std::is_same_v<U, T>, int> = 0>
	explicit ptr(ptr<U> const& o) : p_{reinterpret_cast<T*>(o.p_)}, lo_{reinterpret_cast<T*>(o.lo_)}, hi_{reinterpret_cast<T*>(o.hi_)} {}  // explicit reinterpretation (rebind)

	template<class U = T, std::enable_if_t<!std::is_void_v<U>, int> = 0> static auto pointer_to(U& r) -> ptr { return ptr{std::addressof(r), nullptr, nullptr}; }

	auto operator*() const -> reference { chk(); return *p_; }
	auto operator->() const -> T* { chk(); return p_; }
	auto operator[](difference_type n) const -> reference { return *(*this + n); }

	auto operator+=(difference_type n) -> ptr& { if(p_ == nullptr && n != 0) { ++g.null_arith; if(g.first.empty()) { g.first = "arithmetic on a null fancy pointer"; } } else { p_ += n; } return *this; }
	auto operator-=(difference_type n) -> ptr& { return *this += -n; }
	auto operator++() -> ptr& { return *this += 1; }
	auto operator--() -> ptr& { return *this -= 1; }
	auto operator++(int) -> ptr { ptr t{*this}; ++*this; return t; }
	auto operator--(int) -> ptr { ptr t{*this}; --*this; return t; }
	friend auto operator+(ptr a, difference_type n) -> ptr { a += n; return a; }
	friend auto operator+(difference_type n, ptr a) -> ptr { a += n; return a; }
	friend auto operator-(ptr a, difference_type n) -> ptr { a -= n; return a; }
	friend auto operator-(ptr const& a, ptr const& b) -> difference_type { return a.p_ - b.p_; }

	friend auto operator==(ptr const& a, ptr const& b) -> bool { return a.p_ == b.p_; }
	friend auto operator!=(ptr const& a, ptr const& b) -> bool { return a.p_ != b.p_; }
	friend auto operator< (ptr const& a, ptr const& b) -> bool { return a.p_ <  b.p_; }
	friend auto operator<=(ptr const& a, ptr const& b) -> bool { return a.p_ <= b.p_; }
	friend auto operator> (ptr const& a, ptr const& b) -> bool { return a.p_ >  b.p_; }
	friend auto operator>=(ptr const& a, ptr const& b) -> bool { return a.p_ >= b.p_; }
	friend auto operator==(ptr const& a, std::nullptr_t) -> bool { return a.p_ == nullptr; }
	friend auto operator!=(ptr const& a, std::nullptr_t) -> bool { return a.p_ != nullptr; }
	friend auto operator==(std::nullptr_t, ptr const& a) -> bool { return a.p_ == nullptr; }
	friend auto operator!=(std::nullptr_t, ptr const& a) -> bool { return a.p_ != nullptr; }
	explicit operator bool() const { return p_ != nullptr; }

	// harness-only escape hatch (never used by the library: it cannot know this name)
	auto verif_raw() const -> T* { return p_; }
};

template<class T> auto make(T* p, std::ptrdiff_t n) { return ptr<T>{p, p, p + n}; }

}  // namespace fancy

template<class T> struct std::iterator_traits<fancy::ptr<T>> {
	using difference_type = std::ptrdiff_t; using value_type = std::remove_cv_t<T>; using pointer = fancy::ptr<T>; using reference = std::add_lvalue_reference_t<T>; using iterator_category = std::random_access_iterator_tag;
};
