// E1: view-state explorer.  Reference model of a view = (base offset, [(first,size,stride)...], read-only-type bit),
// alphabet of view-forming operations with every in-domain argument, typed walker that applies a run-time
// operation list to the real (statically typed) views, and a breadth-first search that executes every transition
// on the implementation.
#pragma once
#include <boost/multi/array.hpp>

#include <algorithm>
#include <deque>
#include <string>
#include <tuple>
#include <unordered_set>
#include <utility>
#include <vector>

#include "mc_common.hpp"

#ifndef VM_CALL_MAXARGS
#define VM_CALL_MAXARGS 3   // call syntax with up to this many arguments is instantiated (viewmc/basemc: 4); each extra argument triples the instantiations per view type
#endif
namespace vm {
namespace multi = boost::multi;
using idx = std::ptrdiff_t;

#ifndef VM_DMAX
#define VM_DMAX 5
#endif
constexpr int DMAX = VM_DMAX;

enum Kind : unsigned char {
	INDEX, SLICED, SLICED3, STRIDED, DROPPED, TAKED, ROTATED, UNROTATED, TRANSPOSED, TILDE, REVERSED, DIAGONAL,
	PARTITIONED, CHUNKED, FLATTED, PAREN0, CALL,
	REINDEXED, BLOCKED, STENCILED, REINDEXEDN, STENCILEDN,  // C19 only
	HALVED, FRONT, BACK,
	NKINDS
};
static char const* const kname[] = {"index", "sliced", "sliced3", "strided", "dropped", "taked", "rotated", "unrotated", "transposed", "tilde", "reversed", "diagonal",
	"partitioned", "chunked", "flatted", "paren0", "call", "reindexed", "blocked", "stenciled", "reindexedn", "stenciledn", "halved", "front", "back"};

enum AKind : unsigned char { A_IDX, A_RNG, A_ALL };
struct Arg { unsigned char kind; signed char a, b; };
struct Op {
	Kind k = INDEX; signed char a = 0, b = 0, c = 0, d = 0; unsigned char nargs = 0; Arg args[4] = {};
};
inline Op mk(Kind k, idx a = 0, idx b = 0, idx c = 0) { Op o; o.k = k; o.a = static_cast<signed char>(a); o.b = static_cast<signed char>(b); o.c = static_cast<signed char>(c); return o; }

inline std::string op_str(Op const& o) {
	std::string s = kname[o.k]; s += "(";
	auto I = [](idx v) { return std::to_string(v); };
	switch(o.k) {
		case INDEX: case STRIDED: case DROPPED: case TAKED: case PARTITIONED: case CHUNKED: case REINDEXED: s += I(o.a); break;
		case SLICED: case BLOCKED: case STENCILED: s += I(o.a) + "," + I(o.b); break;
		case SLICED3: s += I(o.a) + "," + I(o.b) + "," + I(o.c); break;
		case REINDEXEDN: s += I(o.a) + "," + I(o.b); if(o.nargs >= 3) { s += "," + I(o.c); } if(o.nargs >= 4) { s += "," + I(o.d); } break;
		case CALL: case STENCILEDN:
			for(int j = 0; j < o.nargs; ++j) {
				if(j) { s += ","; }
				if(o.args[j].kind == A_IDX) { s += "i" + I(o.args[j].a); }
				else if(o.args[j].kind == A_RNG) { s += "r" + I(o.args[j].a) + ":" + I(o.args[j].b); }
				else { s += "_"; }
			}
			break;
		default: break;
	}
	return s + ")";
}
// class of an operation for violation keys: name, and for call the argument-kind pattern
inline std::string op_class(Op const& o) {
	std::string s = kname[o.k];
	if(o.k == STENCILEDN || o.k == REINDEXEDN) { s += std::to_string(static_cast<int>(o.nargs)); }
	if(o.k == CALL) { s += "("; for(int j = 0; j < o.nargs; ++j) { s += (j ? "," : ""); s += (o.args[j].kind == A_IDX ? "i" : o.args[j].kind == A_RNG ? "r" : "_"); } s += ")"; }
	return s;
}
using Hist = std::vector<Op>;
inline std::string hist_str(Hist const& h) { std::string s; for(std::size_t i = 0; i < h.size(); ++i) { s += (i ? ";" : ""); s += op_str(h[i]); } return s; }

inline bool parse_op(std::string const& t, Op& o) {
	auto p = t.find('('); if(p == std::string::npos || t.back() != ')') { return false; }
	std::string name = t.substr(0, p), args = t.substr(p + 1, t.size() - p - 2);
	int k = -1; for(int i = 0; i < NKINDS; ++i) { if(name == kname[i]) { k = i; } }
	if(k < 0) { return false; }
	o = Op{}; o.k = static_cast<Kind>(k);
	std::vector<std::string> parts; { std::string cur; for(char c : args) { if(c == ',') { parts.push_back(cur); cur.clear(); } else { cur += c; } } if(!cur.empty() || !parts.empty()) { parts.push_back(cur); } }
	if(o.k == CALL || o.k == STENCILEDN) {
		o.nargs = static_cast<unsigned char>(parts.size());
		for(std::size_t j = 0; j < parts.size() && j < 4; ++j) {
			auto const& q = parts[j];
			if(q == "_") { o.args[j].kind = A_ALL; }
			else if(q[0] == 'i') { o.args[j].kind = A_IDX; o.args[j].a = static_cast<signed char>(std::atoi(q.c_str() + 1)); }
			else { o.args[j].kind = A_RNG; auto c = q.find(':'); o.args[j].a = static_cast<signed char>(std::atoi(q.substr(1, c - 1).c_str())); o.args[j].b = static_cast<signed char>(std::atoi(q.c_str() + c + 1)); }
		}
	} else {
		if(parts.size() > 0) { o.a = static_cast<signed char>(std::atoi(parts[0].c_str())); }
		if(parts.size() > 1) { o.b = static_cast<signed char>(std::atoi(parts[1].c_str())); }
		if(parts.size() > 2) { o.c = static_cast<signed char>(std::atoi(parts[2].c_str())); }
		if(parts.size() > 3) { o.d = static_cast<signed char>(std::atoi(parts[3].c_str())); }
		if(o.k == REINDEXEDN) { o.nargs = static_cast<unsigned char>(parts.size()); }
	}
	return true;
}
inline Hist parse_hist(std::string const& s) {
	Hist h; std::string cur; int depth = 0;
	auto flush = [&] { if(!cur.empty()) { Op o; if(parse_op(cur, o)) { h.push_back(o); } cur.clear(); } };
	for(char c : s) { if(c == '(') { ++depth; } if(c == ')') { --depth; } if(c == ';' && depth == 0) { flush(); } else { cur += c; } }
	flush(); return h;
}

// ---------------- reference model ----------------
struct MDim { idx first, size, stride; };
struct MView {
	idx base = 0;
	std::vector<MDim> d;
	bool ro = false;  // the real view's static type is const_subarray (set from the implementation's type, never guessed)
	int rank() const { return static_cast<int>(d.size()); }
	idx num_elements() const { idx n = 1; for(auto const& x : d) { n *= x.size; } return n; }
	bool has_empty_dim() const { for(auto const& x : d) { if(x.size == 0) { return true; } } return false; }
};
inline std::string key_of(MView const& m) {
	std::string s = m.ro ? "R" : "M"; s += std::to_string(m.base);
	for(auto const& x : m.d) { s += "|" + std::to_string(x.first) + "," + std::to_string(x.size) + "," + std::to_string(x.stride); }
	return s;
}
inline std::string mview_str(MView const& m) { return key_of(m); }

// model of a root constructed from extensions {first_i, size_i}: row-major, library collapses leading sizes when any is zero
inline MView root_model(std::vector<idx> const& sizes, std::vector<idx> const& firsts = {}) {
	MView m; int D = static_cast<int>(sizes.size()); m.d.resize(static_cast<std::size_t>(D));
	idx s = 1, p = 1;
	for(int i = D - 1; i >= 0; --i) {
		auto u = static_cast<std::size_t>(i);
		p *= sizes[u];
		m.d[u] = MDim{firsts.empty() ? 0 : firsts[u], (p == 0 ? 0 : sizes[u]), (s == 0 ? 1 : s)};
		s *= sizes[u];
	}
	return m;
}

// apply op to the model; returns false when the op is outside the documented domain for this state
inline bool m_apply(MView& v, Op const& o) {
	int D = v.rank();
	auto& d = v.d;
	switch(o.k) {
		case INDEX: if(D < 2) { return false; } v.base += (o.a - d[0].first)*d[0].stride; d.erase(d.begin()); return true;
		case SLICED: v.base += (o.a - d[0].first)*d[0].stride; d[0].size = o.b - o.a; return true;
		case SLICED3: v.base += (o.a - d[0].first)*d[0].stride; d[0].size = (o.b - o.a)/o.c; d[0].stride *= o.c; return true;
		case STRIDED: d[0].size = d[0].size/o.a; d[0].stride *= o.a; return true;
		case DROPPED: v.base += o.a*d[0].stride; d[0].size -= o.a; return true;
		case TAKED: d[0].size = o.a; return true;
		case ROTATED: std::rotate(d.begin(), d.begin() + 1, d.end()); return true;
		case UNROTATED: std::rotate(d.begin(), d.end() - 1, d.end()); return true;
		case TRANSPOSED: case TILDE: if(D < 2) { return false; } std::swap(d[0], d[1]); return true;
		case REVERSED: std::reverse(d.begin(), d.end()); return true;
		case DIAGONAL: { if(D < 2) { return false; } MDim n{0, std::min(d[0].size, d[1].size), d[0].stride + d[1].stride}; d.erase(d.begin()); d[0] = n; return true; }
		case PARTITIONED: { if(D >= DMAX) { return false; } MDim in{0, d[0].size/o.a, d[0].stride}; d[0] = MDim{0, o.a, d[0].stride*in.size}; d.insert(d.begin() + 1, in); return true; }
		case CHUNKED: { if(D >= DMAX) { return false; } idx n = d[0].size/o.a; MDim in{0, o.a, d[0].stride}; d[0] = MDim{0, n, d[0].stride*o.a}; d.insert(d.begin() + 1, in); return true; }
		case FLATTED: { if(D < 2) { return false; } MDim n{0, d[0].size*d[1].size, d[1].stride}; d.erase(d.begin()); d[0] = n; return true; }
		case PAREN0: return true;
		case HALVED: { if(D >= DMAX || d[0].size == 0 || d[0].size % 2 != 0) { return false; } idx h = d[0].size/2; MDim in{d[0].first, h, d[0].stride}; d[0] = MDim{0, 2, d[0].stride*h}; d.insert(d.begin() + 1, in); return true; }
		case FRONT: if(D < 2 || d[0].size == 0) { return false; } d.erase(d.begin()); return true;
		case BACK: if(D < 2 || d[0].size == 0) { return false; } v.base += (d[0].size - 1)*d[0].stride; d.erase(d.begin()); return true;
		case CALL: {
			std::vector<MDim> nd;
			for(int j = 0; j < D; ++j) {
				auto u = static_cast<std::size_t>(j);
				if(j < o.nargs) {
					auto const& a = o.args[j];
					if(a.kind == A_IDX) { v.base += (a.a - d[u].first)*d[u].stride; continue; }
					if(a.kind == A_RNG) { v.base += (a.a - d[u].first)*d[u].stride; nd.push_back(MDim{d[u].first, a.b - a.a, d[u].stride}); continue; }
				}
				nd.push_back(d[u]);
			}
			d = nd; return true;
		}
		case REINDEXED: d[0].first = o.a; return true;
		case REINDEXEDN: if(D < o.nargs) { return false; } d[0].first = o.a; d[1].first = o.b; if(o.nargs >= 3) { d[2].first = o.c; } if(o.nargs >= 4) { d[3].first = o.d; } return true;
		case STENCILEDN: if(D < o.nargs) { return false; } for(int j = 0; j < o.nargs; ++j) { auto u = static_cast<std::size_t>(j); v.base += (o.args[j].a - d[u].first)*d[u].stride; d[u].size = o.args[j].b - o.args[j].a; d[u].first = o.args[j].a; } return true;
		case BLOCKED: case STENCILED: v.base += (o.a - d[0].first)*d[0].stride; d[0].size = o.b - o.a; d[0].first = o.a; return true;
		default: return false;
	}
}

struct Menu {
	bool call_full = false;     // full product of call arguments (else reduced menu)
	int call_maxargs = 3;
	bool rebase_ops = false;    // reindexed / blocked / stenciled (C19)
	bool sliced_uses_first = true;
};

// every in-domain operation of the alphabet for model state v (ro gates ops whose bodies do not compile on const_subarray D>=2)
inline std::vector<Op> enabled(MView const& v, Menu const& mn) {
	std::vector<Op> r; int D = v.rank();
	idx f = v.d[0].first, n = v.d[0].size, l = f + n;
	bool const gap = v.ro && D >= 2;  // api gap: taked/dropped/strided/reversed/sliced3 bodies do not compile there
	bool const nonempty = !v.has_empty_dim();
	if(D >= 2) { for(idx i = f; i < l; ++i) { r.push_back(mk(INDEX, i)); } }
	for(idx a = f; a <= l; ++a) { for(idx b = a; b <= l; ++b) { r.push_back(mk(SLICED, a, b)); } }
	if(!gap) {
		for(idx a = f; a <= l; ++a) { for(idx b = a + 1; b <= l; ++b) { for(idx s = 2; s <= b - a; ++s) { if((b - a)%s == 0) { r.push_back(mk(SLICED3, a, b, s)); } } } }
		for(idx s = 1; s <= n; ++s) { if(n%s == 0) { r.push_back(mk(STRIDED, s)); } }
		for(idx k = 0; k <= n; ++k) { r.push_back(mk(DROPPED, k)); r.push_back(mk(TAKED, k)); }
		r.push_back(mk(REVERSED));
	}
	r.push_back(mk(ROTATED)); r.push_back(mk(UNROTATED)); r.push_back(mk(PAREN0));
	if(D >= 2) { r.push_back(mk(TRANSPOSED)); r.push_back(mk(TILDE)); r.push_back(mk(DIAGONAL)); }
	if(D < DMAX) { for(idx s = 1; s <= n; ++s) { if(n%s == 0) { r.push_back(mk(PARTITIONED, s)); r.push_back(mk(CHUNKED, s)); } } }
	if(D >= 2 && nonempty && (n <= 1 || v.d[0].stride == v.d[1].size*v.d[1].stride)) { r.push_back(mk(FLATTED)); }
	if(D < DMAX && n >= 2 && n % 2 == 0) { r.push_back(mk(HALVED)); }
	if(D >= 2 && n >= 1) { r.push_back(mk(FRONT)); r.push_back(mk(BACK)); }
	// call syntax
	{
		int kmax = std::min(D, mn.call_maxargs);
		std::vector<std::vector<Arg>> per(static_cast<std::size_t>(kmax));
		for(int j = 0; j < kmax; ++j) {
			auto u = static_cast<std::size_t>(j);
			idx fj = v.d[u].first, nj = v.d[u].size, lj = fj + nj;
			auto A = [](unsigned char k, idx a, idx b) { return Arg{k, static_cast<signed char>(a), static_cast<signed char>(b)}; };
			per[u].push_back(A(A_ALL, 0, 0));
			if(mn.call_full) {
				for(idx i = fj; i < lj; ++i) { per[u].push_back(A(A_IDX, i, 0)); }
				for(idx a = fj; a <= lj; ++a) { for(idx b = a; b <= lj; ++b) { per[u].push_back(A(A_RNG, a, b)); } }
			} else {
				if(nj >= 1) { per[u].push_back(A(A_IDX, fj, 0)); }
				if(nj >= 2) { per[u].push_back(A(A_IDX, lj - 1, 0)); }
				if(nj >= 1) { per[u].push_back(A(A_RNG, fj + 1, lj)); per[u].push_back(A(A_RNG, fj, lj - 1)); }
			}
		}
		for(int k = 1; k <= kmax; ++k) {
			std::vector<std::size_t> c(static_cast<std::size_t>(k), 0);
			for(;;) {
				Op o; o.k = CALL; o.nargs = static_cast<unsigned char>(k); int nidx = 0;
				for(int j = 0; j < k; ++j) { o.args[j] = per[static_cast<std::size_t>(j)][c[static_cast<std::size_t>(j)]]; nidx += (o.args[j].kind == A_IDX); }
				if(nidx < D) { r.push_back(o); }  // all-index with k == D is element access, not a view
				int j = k - 1;
				for(; j >= 0; --j) { auto u = static_cast<std::size_t>(j); if(++c[u] < per[u].size()) { break; } c[u] = 0; }
				if(j < 0) { break; }
			}
		}
	}
	if(mn.rebase_ops) {
		for(idx k : {idx{-1}, idx{0}, idx{2}}) { r.push_back(mk(REINDEXED, k)); }
		if(D >= 2) { for(idx a : {idx{-1}, idx{1}}) { for(idx b : {idx{0}, idx{2}}) { Op o = mk(REINDEXEDN, a, b); o.nargs = 2; r.push_back(o); } } }
		if(D >= 3) { for(idx a : {idx{1}}) { for(idx b : {idx{-1}, idx{2}}) { for(idx c : {idx{0}, idx{3}}) { Op o = mk(REINDEXEDN, a, b, c); o.nargs = 3; r.push_back(o); } } } }
		if(D >= 4) { Op o = mk(REINDEXEDN, 2, -1, 1); o.d = 3; o.nargs = 4; r.push_back(o); Op o2 = mk(REINDEXEDN, 0, 1, 2); o2.d = -2; o2.nargs = 4; r.push_back(o2); }
		if(!(v.ro && D >= 2)) { for(idx a = f; a <= l; ++a) { for(idx b = a; b <= l; ++b) { r.push_back(mk(BLOCKED, a, b)); r.push_back(mk(STENCILED, a, b)); } } }
		if(!(v.ro && D >= 2) && D >= 2 && !v.has_empty_dim()) {   // stenciled with 2..D extensions: per dimension the whole extension, without its first, without its last index
			for(int k = 2; k <= std::min(D, 4); ++k) {
				std::vector<std::vector<Arg>> per(static_cast<std::size_t>(k));
				for(int j = 0; j < k; ++j) { auto u = static_cast<std::size_t>(j); idx fj = v.d[u].first, lj = fj + v.d[u].size; auto A = [](idx a, idx b) { return Arg{A_RNG, static_cast<signed char>(a), static_cast<signed char>(b)}; }; per[u].push_back(A(fj, lj)); per[u].push_back(A(fj + 1, lj)); per[u].push_back(A(fj, lj - 1)); }
				std::vector<std::size_t> c(static_cast<std::size_t>(k), 0);
				for(;;) {
					Op o; o.k = STENCILEDN; o.nargs = static_cast<unsigned char>(k); for(int j = 0; j < k; ++j) { o.args[j] = per[static_cast<std::size_t>(j)][c[static_cast<std::size_t>(j)]]; } r.push_back(o);
					int j = k - 1; for(; j >= 0; --j) { auto u = static_cast<std::size_t>(j); if(++c[u] < per[u].size()) { break; } c[u] = 0; }
					if(j < 0) { break; }
				}
			}
		}
	}
	return r;
}

// ---------------- typed walker ----------------
template<class T> struct is_ro : std::false_type {};
template<class T, multi::dimensionality_type D, class P, class L> struct is_ro<multi::const_subarray<T, D, P, L>> : std::true_type {};
template<class V> constexpr bool is_ro_v = is_ro<std::decay_t<V>>::value;
template<class V> constexpr int rank_of = static_cast<int>(std::decay_t<V>::rank_v);

template<int NIdx, class V, class K, class... B>
void call_rec(V&& v, Op const& o, int j, K&& k, B... built) {
	constexpr int D = rank_of<V>;
	constexpr int NB = static_cast<int>(sizeof...(B));
	if(j == o.nargs) {
		if constexpr(NB > 0 && NIdx < D) { k(std::forward<V>(v)(built...)); }
		return;
	}
	if constexpr(NB < D && NB < VM_CALL_MAXARGS) {
		auto const& a = o.args[j];
		switch(a.kind) {
			case A_IDX: call_rec<NIdx + 1>(std::forward<V>(v), o, j + 1, k, built..., multi::index{a.a}); return;
			case A_RNG: call_rec<NIdx>(std::forward<V>(v), o, j + 1, k, built..., multi::index_range{a.a, a.b}); return;
			default: call_rec<NIdx>(std::forward<V>(v), o, j + 1, k, built..., multi::_); return;
		}
	}
}

// apply ONE op to the real view and pass the resulting real view to k
#define FWV std::forward<V>(v)
template<class V, class = void> struct has_reindexed1_ : std::false_type {};
template<class V> struct has_reindexed1_<V, std::void_t<decltype(std::declval<V>().reindexed(idx{}))>> : std::true_type {};   // (1-D views have no const& overload: api gap)
template<int NB0, class V, class K, class... B>
void sten_rec(V&& v, Op const& o, int j, K&& k, B... built) {
	constexpr int D = rank_of<V>;
	constexpr int NB = static_cast<int>(sizeof...(B));
	if(j == o.nargs) { if constexpr(NB >= 2) { k(FWV.stenciled(built...)); } return; }
	if constexpr(NB < D && NB < 4) { sten_rec<NB0>(FWV, o, j + 1, k, built..., multi::index_extension{o.args[j].a, o.args[j].b}); }
}
template<class V, class K>
void apply1(V&& v, Op const& o, K&& k) {
	constexpr int D = rank_of<V>;
	constexpr bool GAP = (is_ro_v<V> || std::is_const_v<std::remove_reference_t<V>>) && D >= 2;
	switch(o.k) {
		case INDEX: if constexpr(D >= 2) { k(FWV[o.a]); } return;
		case SLICED: k(FWV.sliced(o.a, o.b)); return;
		case SLICED3: if constexpr(!GAP) { k(FWV.sliced(o.a, o.b, o.c)); } return;
		case STRIDED: if constexpr(!GAP) { k(FWV.strided(o.a)); } return;
		case DROPPED: if constexpr(!GAP) { k(FWV.dropped(o.a)); } return;
		case TAKED: if constexpr(!GAP) { k(FWV.taked(o.a)); } return;
		case ROTATED: k(FWV.rotated()); return;
		case UNROTATED: k(FWV.unrotated()); return;
		case TRANSPOSED: if constexpr(D >= 2) { k(FWV.transposed()); } return;
		case TILDE: if constexpr(D >= 2) { k(~FWV); } return;
		case REVERSED: if constexpr(!GAP) { k(FWV.reversed()); } return;
		case DIAGONAL: if constexpr(D >= 2) { k(FWV.diagonal()); } return;
		case PARTITIONED: if constexpr(D < DMAX) { k(FWV.partitioned(o.a)); } return;
		case CHUNKED: if constexpr(D < DMAX) { k(FWV.chunked(o.a)); } return;
		case FLATTED: if constexpr(D >= 2) { k(FWV.flatted()); } return;
		case PAREN0: k(FWV()); return;
		case HALVED: if constexpr(D < DMAX) { k(FWV.halved()); } return;
		case FRONT: if constexpr(D >= 2) { k(FWV.front()); } return;
		case BACK: if constexpr(D >= 2) { k(FWV.back()); } return;
		case CALL: call_rec<0>(std::forward<V>(v), o, 0, k); return;
#ifdef VM_REBASE_OPS
		case REINDEXED: if constexpr(has_reindexed1_<V&&>::value) { k(FWV.reindexed(o.a)); } return;
		case REINDEXEDN:
			if constexpr(D >= 2) { if(o.nargs == 2) { k(FWV.reindexed(o.a, o.b)); return; } }
			if constexpr(D >= 3) { if(o.nargs == 3) { k(FWV.reindexed(o.a, o.b, o.c)); return; } }
			if constexpr(D >= 4) { if(o.nargs == 4) { k(FWV.reindexed(o.a, o.b, o.c, o.d)); return; } }
			return;
		case STENCILEDN: if constexpr(!GAP && D >= 2 && !std::is_const_v<std::remove_reference_t<V>>) { sten_rec<0>(FWV, o, 0, k); } return;
		case BLOCKED: if constexpr(!GAP && !std::is_const_v<std::remove_reference_t<V>>) { k(v.blocked(o.a, o.b)); } return;   // (no && overload; the const& body an rvalue would select does not compile: api gap)
		case STENCILED: if constexpr(!GAP && !std::is_const_v<std::remove_reference_t<V>>) { k(FWV.stenciled(multi::index_extension{o.a, o.b})); } return;
#endif
		default: return;
	}
}
#undef FWV

template<class V, class K>
void walk(V&& v, Op const* ops, int n, K&& k) {
	if(n == 0) { k(std::forward<V>(v)); return; }
	// intermediate operations are applied to the temporaries as user code chains them (rvalue overloads); the LAST one to a named view (lvalue overload), as the search does
	if(n == 1) { apply1(v, *ops, [&](auto&& w) { k(std::forward<decltype(w)>(w)); }); return; }
	apply1(std::forward<V>(v), *ops, [&](auto&& w) { walk(std::forward<decltype(w)>(w), ops + 1, n - 1, k); });
}

// ---------------- index enumeration ----------------
// calls f(tuple_of_indices(as vector), model_offset) for every valid index tuple of model m (indices in the view's own index space)
template<class F>
void for_each_index(MView const& m, F&& f) {
	int D = m.rank(); if(m.has_empty_dim()) { return; }
	std::vector<idx> t(static_cast<std::size_t>(D));
	for(int j = 0; j < D; ++j) { t[static_cast<std::size_t>(j)] = m.d[static_cast<std::size_t>(j)].first; }
	for(;;) {
		idx off = m.base;
		for(int j = 0; j < D; ++j) { auto u = static_cast<std::size_t>(j); off += (t[u] - m.d[u].first)*m.d[u].stride; }
		f(t, off);
		int j = D - 1;
		for(; j >= 0; --j) { auto u = static_cast<std::size_t>(j); if(++t[u] < m.d[u].first + m.d[u].size) { break; } t[u] = m.d[u].first; }
		if(j < 0) { break; }
	}
}
inline std::string tup_str(std::vector<idx> const& t) { std::string s = "("; for(std::size_t i = 0; i < t.size(); ++i) { s += (i ? "," : ""); s += std::to_string(t[i]); } return s + ")"; }

// element address by chained brackets
template<class V> auto addr_brackets(V&& v, idx const* t) {
	if constexpr(rank_of<V> == 1) { return std::addressof(v[t[0]]); } else { return addr_brackets(v[t[0]], t + 1); }
}
template<class V, std::size_t... I> auto addr_call(V&& v, idx const* t, std::index_sequence<I...>) { return std::addressof(v(t[I]...)); }
template<class V, std::size_t... I> auto addr_apply(V&& v, idx const* t, std::index_sequence<I...>) { return std::addressof(v.apply(std::make_tuple(t[I]...))); }
template<class C, int D> auto addr_cursor(C const& c, idx const* p) {
	if constexpr(D == 1) { return std::addressof(c[p[0]]); } else { return addr_cursor<decltype(c[p[0]]), D - 1>(c[p[0]], p + 1); }
}

// ---------------- breadth-first search ----------------
struct Config {
	int maxdepth = 3;
	long max_states = 4000000;
	Menu menu0;      // menu at depth 0 (root)
	Menu menu;       // menu deeper
	int full_call_depth = 1;  // states with hist.size() < this use menu0
	bool perm_roots = true;     // for rank >= 3: every axis permutation of the root (expressed with rotated/transposed/unrotated) is an additional root, expanded to perm_depth
	int perm_depth = 1;
	bool categories = true;     // every transition is also executed through the rvalue (&&) and the const& overload of the operation; both results must be the same view as the lvalue overload's
	bool adopt_firsts = false;  // C19: the index base of a RESULT is not documented: the model adopts the reported first of every non-empty dimension and checks elements position-wise
};
template<class V> void adopt_firsts_from(V const& v, MView& m) {
	auto xs = v.extensions();
	auto firsts = std::apply([](auto... e) { return std::vector<idx>{static_cast<idx>(e.first())...}; }, xs.base());
	auto lens = std::apply([](auto... e) { return std::vector<idx>{static_cast<idx>(e.size())...}; }, xs.base());
	for(std::size_t j = 0; j < m.d.size() && j < firsts.size(); ++j) { if(lens[j] > 0) { m.d[j].first = firsts[j]; } else { m.d[j].first = 0; } }
}
struct Stats { long states = 0, transitions = 0, completed_depth = -1, category_runs = 0; bool capped = false; };

// Fingerprint of the REAL view value (base displacement from the root's base in bytes + every layout field the library stores, including the ones the
// affine model does not have: nelems and offset of every level).  Two results are merged only when model state AND this fingerprint agree, so
//  (a) a transition that lands on an already-known model state with a different real value is a NEW state and gets the full oracle, and
//  (b) real states that differ only in hidden layout fields (same affine map, different nelems/offset) are expanded separately: they may have different futures.
template<class P> auto raw_addr_(P const& p) { if constexpr(std::is_pointer_v<P>) { return reinterpret_cast<std::uintptr_t>(p); } else { return reinterpret_cast<std::uintptr_t>(p.verif_raw()); } }
template<class L> void layout_fp_(L const& l, std::string& s) {
	if constexpr(L::dimensionality > 0) { s += std::to_string(l.stride()) + "," + std::to_string(l.offset()) + "," + std::to_string(l.nelems()) + ";"; layout_fp_(l.sub(), s); }
}
template<class R, class W> std::string real_fp(R const& start, W const& w) {
	std::string s = "#" + std::to_string(static_cast<std::ptrdiff_t>(raw_addr_(w.base()) - raw_addr_(start.base()))) + ":";
	layout_fp_(w.layout(), s); return s;
}

// histories that realise every non-identity permutation of D axes: bubble sort, adjacent swap (i,i+1) = rotated^i ; transposed ; unrotated^i
inline std::vector<Hist> perm_hists(int D) {
	std::vector<Hist> r; std::vector<int> p(static_cast<std::size_t>(D)); for(int i = 0; i < D; ++i) { p[static_cast<std::size_t>(i)] = i; }
	while(std::next_permutation(p.begin(), p.end())) {
		std::vector<int> cur(p); Hist h;
		for(bool sw = true; sw;) { sw = false; for(std::size_t i = 0; i + 1 < cur.size(); ++i) { if(cur[i] > cur[i + 1]) { std::swap(cur[i], cur[i + 1]); for(std::size_t q = 0; q < i; ++q) { h.push_back(mk(ROTATED)); } h.push_back(mk(TRANSPOSED)); for(std::size_t q = 0; q < i; ++q) { h.push_back(mk(UNROTATED)); } sw = true; } } }
		r.push_back(h);
	}
	return r;
}

// visit(v, model, hist) -> bool : full oracle on a NEW state; return false to mark the state violating (not expanded).
// The search executes every transition on the implementation (apply1 on the real parent view).
template<class Root, class Visit>
Stats bfs(Root& root, MView const& m0, Config const& cfg, std::set<std::string> const& skip, Visit&& visit, std::string const& prefix = "") {
	struct St { Hist hist; MView m; int plen = 0; };
	std::deque<St> fr; std::unordered_set<std::string> seen; Stats st;
	auto start = root();
	MView mr = m0; mr.ro = is_ro_v<decltype(start)>;
	seen.insert(key_of(mr) + real_fp(start, start)); ++st.states;
	{
		Hist h0; mc::cur_set("root", prefix);
		if(visit(start, mr, h0)) { fr.push_back(St{h0, mr, 0}); }
	}
	std::vector<St> proots;
	if(cfg.perm_roots && m0.rank() >= 3 && !m0.has_empty_dim() && cfg.maxdepth >= 1) {
		for(auto const& eh : perm_hists(m0.rank())) {
			MView m2 = mr; bool ok = true; for(auto const& o : eh) { if(!m_apply(m2, o)) { ok = false; } } if(!ok) { continue; }
			std::string hs = prefix + hist_str(eh); if(skip.count(hs)) { continue; }
			mc::cur_set("axis-permutation-root", hs);
			walk(root(), eh.data(), static_cast<int>(eh.size()), [&](auto&& w) {
				m2.ro = is_ro_v<decltype(w)>; if(cfg.adopt_firsts) { adopt_firsts_from(w, m2); }
				auto k = key_of(m2) + real_fp(start, w);
				if(!seen.insert(k).second) { return; }
				++st.states; ++st.transitions;
				if(visit(w, m2, eh)) { proots.push_back(St{eh, m2, static_cast<int>(eh.size())}); }
			});
		}
	}
	int cur_depth = 0;
	bool proots_pushed = false;
	while(!fr.empty() || !proots_pushed) {
		if(fr.empty()) { for(auto& pr : proots) { fr.push_back(std::move(pr)); } proots_pushed = true; if(fr.empty()) { break; } }
		St s = std::move(fr.front()); fr.pop_front();
		int depth = static_cast<int>(s.hist.size()) - s.plen;
		if(s.plen == 0 && depth > cur_depth) { st.completed_depth = cur_depth; cur_depth = depth; }
		if(depth >= (s.plen ? std::min(cfg.perm_depth, cfg.maxdepth) : cfg.maxdepth)) { continue; }
		if(mc::past_deadline() || static_cast<long>(seen.size()) > cfg.max_states) { st.capped = true; break; }
		auto ops = enabled(s.m, (s.plen == 0 && depth < cfg.full_call_depth) ? cfg.menu0 : cfg.menu);
		walk(root(), s.hist.data(), static_cast<int>(s.hist.size()), [&](auto&& v) {
			for(auto const& o : ops) {
				MView m2 = s.m;
				if(!m_apply(m2, o)) { continue; }
				Hist h2 = s.hist; h2.push_back(o);
				std::string hs = prefix + hist_str(h2);
				if(skip.count(hs)) { ++st.transitions; continue; }
				mc::cur_set(op_class(o), hs);
				bool executed = false; std::string fp_l;
				apply1(v, o, [&](auto&& w) {
					executed = true; ++st.transitions; fp_l = real_fp(start, w);
					m2.ro = is_ro_v<decltype(w)>;
					if(cfg.adopt_firsts) { adopt_firsts_from(w, m2); }
					auto k = key_of(m2) + real_fp(start, w);
					if(!seen.insert(k).second) { return; }
					++st.states;
					if(visit(w, m2, h2)) { fr.push_back(St{h2, m2, s.plen}); }
				});
				if(!executed) { mc::R.add("harness_unexpressible"); }
#ifdef VM_CATEGORIES   // (compiled only where requested — viewmc, basemc: it triples the instantiations of apply1)
				else if(cfg.categories) {
					auto differs = [&](char const* cat, std::string const& fp2) {
						mc::R.violation("D" + std::to_string(s.m.rank()) + "|" + op_class(o) + "|" + cat + "-overload-yields-a-different-view", mc::J().s("harness", "engine:view_model").s("replay", hs).s("trace", hist_str(h2)).s("oracle", std::string("value-category differential (") + cat + " vs lvalue overload)").s("detail", "lvalue overload: base/layout " + fp_l + "; " + cat + " overload: " + fp2).str());
					};
					mc::cur_set(op_class(o) + " &&", hs);
					bool ran = false;
					apply1(std::move(v), o, [&](auto&& w2) { ran = true; ++st.category_runs; auto f2 = real_fp(start, w2); if(f2 != fp_l) { differs("rvalue", f2); } });
					constexpr bool rank2 = rank_of<decltype(v)> >= 2;
					bool const gapop = (rank2 && (o.k == SLICED3 || o.k == STRIDED || o.k == DROPPED || o.k == TAKED || o.k == REVERSED)) || o.k == BLOCKED || o.k == STENCILED || o.k == STENCILEDN;   // bodies that do not compile for const views on this tree (api gaps, recorded in the evidence)
					if(!gapop) {
						mc::cur_set(op_class(o) + " const&", hs);
						apply1(std::as_const(v), o, [&](auto&& w3) { ++st.category_runs; auto f3 = real_fp(start, w3); if(f3 != fp_l) { differs("const", f3); } if(!is_ro_v<decltype(w3)> && !std::is_const_v<std::remove_reference_t<decltype(w3)>>) { mc::R.add("const_overload_returned_mutable_view"); } });
					}
					(void)ran;
				}
#endif
			}
		});
	}
	if(!st.capped) { st.completed_depth = cfg.maxdepth; }
	mc::R.add("overload_category_runs", st.category_runs);
	return st;
}

}  // namespace vm
