// Root shapes, sharding, replay plumbing shared by all E1 clients.  The including harness must have defined
//   template<int D, class Root> void run_root(Root&, int const* data, idx N, sizes, rootname, prefix, cfg, skip)
// BEFORE including this header.
#pragma once
#include "view_model.hpp"
#include "view_oracle.hpp"
#ifdef VM_FANCY
#include "fancy_ptr.hpp"
#endif

namespace vr {
using namespace vm;

struct Shape { std::vector<idx> s; bool thorough_only; };
inline std::function<bool(Shape const&, bool)> shape_filter;   // optional: (shape, owning) -> use it?
inline std::vector<Shape> const& shapes() {
	static std::vector<Shape> const v = {
		{{0}, false}, {{1}, false}, {{2}, false}, {{3}, false}, {{4}, false}, {{6}, false}, {{5}, true}, {{8}, true},
		{{2, 3}, false}, {{3, 2}, false}, {{4, 2}, false}, {{1, 3}, false}, {{3, 1}, false}, {{1, 1}, false}, {{0, 3}, false}, {{2, 0}, false},
		{{3, 4}, true}, {{4, 3}, true}, {{2, 6}, true}, {{6, 2}, true}, {{4, 4}, true},
		{{2, 3, 2}, false}, {{1, 2, 3}, false}, {{3, 1, 2}, false}, {{2, 0, 2}, false},
		{{2, 2, 3}, true}, {{2, 3, 4}, true}, {{4, 2, 2}, true}, {{3, 3, 3}, true},
		{{2, 1, 2, 3}, false}, {{1, 2, 3, 2}, false}, {{1, 2, 2, 2}, false}, {{2, 2, 2, 2}, true}, {{3, 2, 1, 2}, true},
	};
	return v;
}

inline bool g_replay_const = false;
template<class Root> struct ConstRoot { Root const& r; auto operator()() const { return r(); } };

inline std::string sizes_str(std::vector<idx> const& sizes) { std::string p; for(std::size_t i = 0; i < sizes.size(); ++i) { p += (i ? "x" : ""); p += std::to_string(sizes[i]); } return p; }

template<int D>
void run_shape(std::vector<idx> const& sizes, bool owning, Config const& cfg, std::set<std::string> const& skip) {
	idx N = 1; for(auto s : sizes) { N *= s; }
	std::string name = (owning ? "array<int," : "array_ref<int,") + std::to_string(D) + ">{";  // (VM_FANCY rewrites the prefix)
	for(std::size_t i = 0; i < sizes.size(); ++i) { name += (i ? "," : ""); name += std::to_string(sizes[i]); }
	name += "}";
	std::string prefix = sizes_str(sizes) + (owning ? "/o/" : "/r/");
	auto exts = vo::make_extensions<D>(sizes);
#ifdef VM_FANCY
	// C11: the same roots over a user-defined pointer type with provenance tracking (array_ref over a custom pointer)
	if(owning) { return; }
	{
		vo::GuardBuffer<int> g(N);
		for(idx i = 0; i < N; ++i) { g.data()[i] = static_cast<int>(1000 + i); }
		fancy::g = fancy::Stats{};
		multi::array_ref<int, D, fancy::ptr<int>> a(exts, fancy::make(g.data(), N));
		name = "array_ref<int," + std::to_string(D) + ",fancy::ptr<int>>" + name.substr(name.find('{'));
		run_root<D>(a, g.data(), N, sizes, name, prefix, cfg, skip);
		if(!g.intact()) { mc::R.violation("D" + std::to_string(D) + "|guard", mc::J().s("root", name).s("detail", "guard elements modified").str()); }
		mc::R.add("fancy_dereferences", fancy::g.deref);
		if(fancy::g.oob_deref || fancy::g.null_deref || fancy::g.null_arith) {
			mc::R.violation("D" + std::to_string(D) + "|fancy-pointer|" + (fancy::g.oob_deref ? "dereference-outside-storage" : fancy::g.null_deref ? "null-dereference" : "null-arithmetic"),
				mc::J().s("root", name).s("replay", prefix).s("detail", fancy::g.first).n("out_of_bounds_dereferences", fancy::g.oob_deref).n("null_dereferences", fancy::g.null_deref).n("null_arithmetic", fancy::g.null_arith).str());
		}
	}
#else
	if(owning) {
		multi::array<int, D> a(exts);
		for(idx i = 0; i < N; ++i) { a.data_elements()[i] = static_cast<int>(1000 + i); }
		run_root<D>(a, a.data_elements(), N, sizes, name, prefix, cfg, skip);
	} else {
		vo::GuardBuffer<int> g(N);
		for(idx i = 0; i < N; ++i) { g.data()[i] = static_cast<int>(1000 + i); }
		multi::array_ref<int, D> a(exts, g.data());
		run_root<D>(a, g.data(), N, sizes, name, prefix, cfg, skip);
#ifdef VM_CONST_ROOTS   // the same search starting from the array seen through a const reference (every view is then of the read-only family)
		{ ConstRoot<multi::array_ref<int, D>> ca{a}; run_root<D>(ca, g.data(), N, sizes, "const " + name, sizes_str(sizes) + "/c/", cfg, skip); }
#endif
		if(!g.intact()) { mc::R.violation("D" + std::to_string(D) + "|guard", mc::J().s("root", name).s("detail", "guard elements modified").str()); }
	}
#endif
}

inline void dispatch(Shape const& sh, bool owning, Config const& cfg, std::set<std::string> const& skip) {
#ifdef ONLY_RANK
	if(sh.s.size() == ONLY_RANK) { run_shape<ONLY_RANK>(sh.s, owning, cfg, skip); }
#else
	switch(sh.s.size()) {
		case 1: run_shape<1>(sh.s, owning, cfg, skip); break;
		case 2: run_shape<2>(sh.s, owning, cfg, skip); break;
		case 3: run_shape<3>(sh.s, owning, cfg, skip); break;
		case 4: run_shape<4>(sh.s, owning, cfg, skip); break;
		default: break;
	}
#endif
}

// generic single-trace replay: reach the state and hand (view, model, data, N) to f -> int
template<int D, class F>
int replay_shape(std::vector<idx> const& sizes, bool owning, Hist const& h, F&& f) {
	idx N = 1; for(auto s : sizes) { N *= s; }
	MView m = root_model(sizes);
	for(auto const& o : h) { if(!m_apply(m, o)) { std::printf("REPLAY out-of-domain op %s\n", op_str(o).c_str()); return 2; } }
	int rc = 2;
	auto go = [&](auto& root, int const* data) {
		bool reached = false;
		walk(root(), h.data(), static_cast<int>(h.size()), [&](auto&& v) { reached = true; MView mm = m; mm.ro = is_ro_v<decltype(v)>; rc = f(v, mm, data, N); });
		if(!reached) { std::printf("REPLAY trace not expressible on this tree\n"); rc = 2; }
	};
	auto exts = vo::make_extensions<D>(sizes);
#ifdef VM_FANCY
	{ (void)owning; vo::GuardBuffer<int> g(N); for(idx i = 0; i < N; ++i) { g.data()[i] = static_cast<int>(1000 + i); } multi::array_ref<int, D, fancy::ptr<int>> a(exts, fancy::make(g.data(), N)); go(a, g.data()); }
#else
	if(owning) { multi::array<int, D> a(exts); for(idx i = 0; i < N; ++i) { a.data_elements()[i] = static_cast<int>(1000 + i); } go(a, a.data_elements()); }
	else { vo::GuardBuffer<int> g(N); for(idx i = 0; i < N; ++i) { g.data()[i] = static_cast<int>(1000 + i); } multi::array_ref<int, D> a(exts, g.data()); if(g_replay_const) { ConstRoot<multi::array_ref<int, D>> ca{a}; go(ca, g.data()); } else { go(a, g.data()); } }
#endif
	return rc;
}
template<class F>
int replay_generic(std::vector<idx> const& sizes, bool owning, Hist const& h, F&& f) {
#ifdef ONLY_RANK
	if(sizes.size() == ONLY_RANK) { return replay_shape<ONLY_RANK>(sizes, owning, h, f); }
	std::printf("REPLAY wrong rank for this binary\n"); return 3;
#else
	switch(sizes.size()) {
		case 1: return replay_shape<1>(sizes, owning, h, f);
		case 2: return replay_shape<2>(sizes, owning, h, f);
		case 3: return replay_shape<3>(sizes, owning, h, f);
		case 4: return replay_shape<4>(sizes, owning, h, f);
		default: return 2;
	}
#endif
}

// parses '<sizes e.g. 2x3>/<o|r>/<trace>'
inline bool parse_replay(std::string const& r, std::vector<idx>& sizes, bool& owning, Hist& h) {
	auto p1 = r.find('/'); if(p1 == std::string::npos) { return false; }
	auto p2 = r.find('/', p1 + 1); if(p2 == std::string::npos) { return false; }
	std::string ss = r.substr(0, p1), own = r.substr(p1 + 1, p2 - p1 - 1), tr = r.substr(p2 + 1);
	std::string cur; for(char c : ss + "x") { if(c == 'x') { sizes.push_back(std::atol(cur.c_str())); cur.clear(); } else { cur += c; } }
	owning = own == "o"; h = parse_hist(tr); g_replay_const = own == "c"; return true;
}

template<class Replay>
int main_roots(mc::Args const& args, Config const& cfg, bool thorough, Replay&& replay) {
	long shard = args.geti("shard", 0), nshards = args.geti("nshards", 1);
	mc::set_deadline(static_cast<double>(args.geti("deadline", 3000)));
	if(args.has("replay")) {
		std::vector<idx> sizes; bool owning = false; Hist h;
		if(!parse_replay(args.get("replay"), sizes, owning, h)) { std::printf("REPLAY cannot parse\n"); return 2; }
		return replay(sizes, owning, h);
	}
	return mc::supervise([&](std::set<std::string> const& skip) {
		long i = 0;
		for(auto const& sh : shapes()) {
			if(sh.thorough_only && !thorough) { continue; }
#ifdef ONLY_RANK
			if(sh.s.size() != ONLY_RANK) { continue; }
#endif
			for(int owning = 0; owning < 2; ++owning) {
				idx N = 1; for(auto s : sh.s) { N *= s; }
				if(owning && N == 0) { continue; }  // empty owning arrays have a null base: non-zero-offset slicing is UB there (DESIGN §3)
				if(shape_filter && !shape_filter(sh, owning != 0)) { continue; }
				if((i++ % nshards) != shard) { continue; }
				dispatch(sh, owning != 0, cfg, skip);
			}
		}
		mc::R.emit(stdout);
	});
}

}  // namespace vr
