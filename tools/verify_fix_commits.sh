#!/bin/bash
# For every commit of /repo after the pinned snapshot: check it out in a scratch worktree, build the whole test-suite (a build failure is fatal) and run ctest.
set -u
WT=/tmp/vfc_wt; rm -rf $WT; git -C /repo worktree prune
git -C /repo worktree add --detach $WT HEAD >/dev/null 2>&1
cd $WT && cmake -G Ninja -B _build -S . -DCMAKE_BUILD_TYPE=RelWithDebInfo -DCMAKE_CXX_FLAGS=-Wno-error >/dev/null 2>&1
for c in $(git -C /repo log --reverse --format=%h 87f5c7b..HEAD); do
  git -C $WT checkout -q --detach $c
  if ! cmake --build _build -j${JOBS:-16} > _build/log.txt 2>&1; then echo "$c BUILD-FAILED $(grep -m1 error _build/log.txt | cut -c1-200)"; continue; fi
  res=$(OMPI_ALLOW_RUN_AS_ROOT=1 OMPI_ALLOW_RUN_AS_ROOT_CONFIRM=1 ctest --test-dir _build -j8 --timeout 900 2>&1 | grep "tests passed")
  echo "$c $res :: $(git -C /repo log -1 --format=%s $c | cut -c1-80)"
done
cd /; git -C /repo worktree remove --force $WT
