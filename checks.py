"""Registry of checks: which harness binaries (jobs) decide which property, in which build configurations."""
from vcore import Job

CHECKS = {}


def ranks_jobs(harness, cfg, tier, ranks=(1, 2, 3, 4), extra_args=(), shards_thorough=4, extra_defs=()):
    jobs = []
    for r in ranks:
        n = shards_thorough if tier == "thorough" else 1
        for s in range(n):
            jobs.append(Job(harness, cfg=cfg, defs=["-DONLY_RANK=%d" % r] + list(extra_defs), args=["--tier=" + tier, "--shard=%d" % s, "--nshards=%d" % n] + list(extra_args)))
    return jobs


CHECKS["C01"] = dict(
    title="view algebra",
    level="model_checking",
    engine="E1",
    claim=("Every sequence of view-forming operations up to the depth bound (quick 3, thorough 5) from every root shape is executed on the real views and compared, state by state and "
           "index tuple by index tuple, with the affine reference model; this is a complete enumeration within the bound, which is the right level for a universally quantified "
           "statement about compositions that tests only sample."),
    jobs=lambda tier: ranks_jobs("viewmc", "san", tier),
    rule=("breadth-first search over view states: state = (base offset, per-dimension (first,size,stride), read-only-type bit) reached by an operation history from a root "
          "array_ref/array (shapes incl. sizes 0 and 1, D=1..4, results up to D=5); alphabet = index, sliced(a,b), sliced(a,b,s), strided, dropped, taked, rotated, unrotated, "
          "transposed, ~, reversed, diagonal, partitioned, chunked, flatted, v(), call syntax with index/range/all arguments (full product at the root, reduced menu deeper), "
          "every in-domain argument; every transition is executed on the real view; at every new state: size/sizes/extensions/num_elements/is_empty/strides vs the affine model, "
          "and the address of EVERY valid index tuple via brackets, call syntax, apply(tuple), cursor indexing and cursor += against root + model offset, inside the root's storage; "
          "broadcasted()[i] for i in {0,1,5} designates the source. distinct_nontrivial = distinct states that are non-empty views with >= 2 elements."),
    assumptions=["reference model engine/view_model.hpp (documented index mappings)", "g++ 12 -O0 with ASan+UBSan, assertions enabled",
                 "strides of dimensions of size <= 1 and index bases of empty dimensions are unobservable and not compared"],
)

CHECKS["C02"] = dict(
    title="iterator / elements() random-access laws",
    level="model_checking",
    engine="E1",
    claim=("At every view state reached by the E1 search (quick depth 2, thorough depth 3) the random-access laws are checked for ALL positions 0..size and ALL in-range offsets, for "
           "begin/end, cbegin/cend, iterators of the const view, and elements() (mutable and const): positions are compared by dereferenced ADDRESS against the model, never by iterator "
           "equality alone. Complete enumeration of states x positions x offsets within the bound."),
    jobs=lambda tier: ranks_jobs("itermc", "san", tier),
    rule=("E1 breadth-first search over view states (same alphabet as C01, reduced call menu); at each new state, for every iterator family (iterator, const_iterator, iterator of const view, "
          "elements(), const elements()): for all p in [0,size], all k with p+k in [0,size]: ++/-- inverse (pre/post), (it+k)-k==it and same address, (it+k)-it==k, +=k;-=k returns to same "
          "address, < <= > >= == != consistent with k, it[k] is *(it+k), copied and ASSIGNED iterators (assignment over an iterator at another position) designate the same address and advance "
          "identically, converted const_iterator equals cbegin+p, *(begin+p) is v[first+p] (base and layout); elements(): k-th position, [k], front(), back() are the element at the k-th index "
          "tuple in canonical order computed by the model. distinct_nontrivial = distinct non-empty states with >= 2 elements."),
    assumptions=["reference model engine/view_model.hpp", "g++ 12 -O0, ASan+UBSan, assertions enabled", "iterators of two different views are never compared (out of domain)"],
)

CHECKS["C05"] = dict(
    title="assignment through views",
    level="model_checking",
    engine="E1",
    claim=("All ordered (destination, source) pairs of equal-extent view states of two same-shaped roots (E1 state sets, depth 2; thorough adds the larger shapes and lifts the per-class cap) x 14 "
           "assignment forms are executed on the real views; the oracle compares the WHOLE destination and source buffers including guards with the model-computed expectation, so a write "
           "outside the view, a wrong order, a modified source or a rebound view is visible. Complete enumeration within the bound."),
    jobs=lambda tier: ranks_jobs("assignmc", "san", tier, shards_thorough=4),
    rule=("state sets from the E1 search (C01 alphabet, depth 2) on array_ref roots over guard buffers; pairs grouped by (rank, extents); forms: dst=src, dst=std::move(src), dst=+src, "
          "dst=array<short>, dst=array<short>(), dst.elements()=src.elements(), =std::move(src).elements(), dst={initializer list}, dst=std::vector (1-D), dst.fill(x), dst.swap(src), "
          "swap(dst,src), std::move(dst)=src, dst=src.element_moved(); expectation computed from the model's index->offset maps in canonical order. distinct_nontrivial = pairs whose "
          "destination has >= 2 elements; evaluations = (pair, form) executions."),
    assumptions=["destination and source live in different roots (disjoint elements, as the property requires)", "forms that materialise an owning temporary are applied only to sources without an empty dimension (owning arrays collapse leading sizes)",
                 "reference model engine/view_model.hpp", "g++ 12 -O0 ASan+UBSan, assertions enabled"],
)
