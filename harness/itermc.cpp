// C02 — iterators, const iterators and elements() ranges obey the random-access laws at every view state reachable by E1.
#include "../engine/view_model.hpp"
#include "../engine/view_oracle.hpp"

using namespace vm;

#include "../engine/iter_laws.hpp"
using il::g_laws; using il::Bad; using il::check_iters;

template<int D, class Root>
static void run_root(Root& root, int const* data, idx N, std::vector<idx> const& sizes, std::string const& rootname, std::string const& prefix, Config const& cfg, std::set<std::string> const& skip) {
	MView m0 = root_model(sizes);
	long nontrivial = 0, cnt = 0;
	auto st = bfs(root, m0, cfg, skip, [&](auto&& v, MView const& m, Hist const& h) -> bool {
		mc::cur_phase("shape");
		vo::Fail f = vo::check_view(v, m, data, N);
		if(f.bad) { return false; }  // C01's business; broken views are not iterated
		if(!m.has_empty_dim() && m.num_elements() >= 2) { ++nontrivial; }
		auto bad = check_iters(v, m, data);
		mc::R.outcome(key_of(m));
		if(h.size() >= 1 && m.num_elements() >= 4 && mc::R.samples.size() < 3 && (cnt++ % 53) == 0) {
			mc::R.sample(mc::J().s("root", rootname).s("trace", hist_str(h)).s("model_state", key_of(m)).n("positions", m.d[0].size + 1).n("elements", m.num_elements()).str());
		}
		for(auto const& b : bad) {
			mc::R.violation("D" + std::to_string(m.rank()) + "|" + b.fam + "|" + b.law,
				mc::J().s("harness", "itermc").s("replay", prefix + hist_str(h)).s("root", rootname).s("trace", hist_str(h)).s("family", b.fam).s("law", b.law).s("detail", b.detail).s("model_state", key_of(m)).str());
		}
		return true;  // iterator-law violations do not corrupt the view: keep exploring
	}, prefix);
	mc::R.add("states", st.states); mc::R.add("transitions", st.transitions); mc::R.add("distinct_nontrivial", nontrivial);
	mc::R.add("law_instances_checked", g_laws); g_laws = 0;
	if(st.capped) { mc::R.exhaustive = false; }
	mc::R.note(rootname + ": completed_depth=" + std::to_string(st.completed_depth) + " states=" + std::to_string(st.states) + " transitions=" + std::to_string(st.transitions) + (st.capped ? " CAPPED" : ""));
}

#include "../engine/view_roots.hpp"

int main(int argc, char** argv) {
	mc::Args args(argc, argv);
	bool thorough = args.get("tier", "quick") == "thorough";
	Config cfg;
	cfg.maxdepth = static_cast<int>(args.geti("depth", thorough ? 3 : 2));
	cfg.max_states = args.geti("max_states", 2000000);
	cfg.menu0.call_full = false; cfg.menu0.call_maxargs = 2;
	cfg.menu.call_full = false; cfg.menu.call_maxargs = 2;
	return vr::main_roots(args, cfg, thorough, [](std::vector<idx> const& sizes, bool owning, Hist const& h) { return vr::replay_generic(sizes, owning, h, [](auto&& v, MView const& m, int const* data, idx) {
		auto bad = check_iters(v, m, data);
		for(auto const& b : bad) { std::printf("REPLAY VIOLATION family=%s law=%s detail=%s\n", b.fam.c_str(), b.law.c_str(), b.detail.c_str()); }
		if(bad.empty()) { std::printf("REPLAY OK\n"); }
		return bad.empty() ? 0 : 1;
	}); });
}
