// C04 (value semantics over ALL extents) — the complete grid of (destination extensions, source extensions) pairs in dimensionality D = 1..4 (PM_D), index
// extensions from the same per-dimension menu as reextmc (empty, sizes 1..3(5), shifted index bases), x every value-semantic form between two owning arrays
// (copy assignment, move assignment, converting assignment from an array of another element type / allocator type, assignment from a whole view and from a
// re-based view, copy / move / converting construction, swap, unary plus) x element types (int; tracked element over the ledger allocator).
// Oracle per pair: the destination's extensions (sizes AND index bases) equal the source's, every index tuple holds the source's value, the source is
// unchanged (copy forms) or empty-and-valid (move forms), the two arrays share no storage, later writes to one are invisible to the other, the live-object
// registry and the ledger are clean and nothing leaks.  Every batch runs in a forked child.
#include "../engine/hist_model.hpp"
#if __has_include(<execution>)
#include <execution>
#define PM_HAVE_EXECUTION 1
#endif

#ifndef PM_D
#define PM_D 2
#endif
constexpr int D = PM_D;
using namespace hm;
using vm::idx;
using instr::W;
#include "../engine/ext_grid.hpp"

enum Form { F_COPY_ASSIGN, F_MOVE_ASSIGN, F_CONVERTING_ASSIGN, F_OTHER_ALLOC_ASSIGN, F_VIEW_ASSIGN, F_CONST_VIEW_ASSIGN, F_COPY_CTOR, F_MOVE_CTOR, F_CONVERTING_CTOR, F_VIEW_CTOR, F_SWAP, F_MEMBER_SWAP, F_DECAY, F_SELF_ASSIGN, F_POLICY_COPY_CTOR, NFORMS };
static char const* const fname[] = {"a=b", "a=std::move(b)", "a=array<other element type>", "a=array<T,other allocator type>", "a=b()", "a=std::as_const(b)()", "Arr c(b)", "Arr c(std::move(b))", "Arr c(array<other element type>)",
	"Arr c(b())", "swap(a,b)", "a.swap(b)", "a=+b", "a=a", "Arr c(std::execution::seq, b)"};

// element whose user opted out of default construction (force_element_trivial_default_construction) but which has a non-trivial destructor: every object that was
// constructed (fill / copy / converting constructions) must still be destroyed exactly once.  Counted, not registered (the library legitimately skips its default constructor).
struct FT {
	int v; static inline long nctor = 0, ndtor = 0;
	FT() : v(0) { ++nctor; }
	FT(int x) : v(x) { ++nctor; }  // NOLINT
	FT(FT const& o) : v(o.v) { ++nctor; }
	FT& operator=(FT const&) = default;
	~FT() { ++ndtor; }
	friend bool operator==(FT const& a, FT const& b) { return a.v == b.v; }
	friend bool operator!=(FT const& a, FT const& b) { return a.v != b.v; }
};
namespace boost::multi { template<> inline constexpr bool force_element_trivial_default_construction<FT> = true; }
namespace instr { inline int val(FT const& f) { return f.v; } }
template<class T> struct TI;
template<> struct TI<FT> { static constexpr char const* name = "forced-trivial-default-construction"; using alloc = std::allocator<FT>; using other = int; using otheralloc = instr::LA<FT>; };
template<> struct TI<int> { static constexpr char const* name = "int"; using alloc = std::allocator<int>; using other = short; using otheralloc = instr::LA<int>; };
template<> struct TI<instr::E> { static constexpr char const* name = "tracked"; using alloc = instr::LA<instr::E>; using other = int; using otheralloc = std::allocator<instr::E>; };

static int codeb(idx const* t) { return code(t) % 20000 + 5000; }   // source values (fit a short)
static int codea(idx const* t) { return code(t) % 20000 - 25000; }  // destination's prior values

template<class A, class Ex> std::string cmp_to(A const& a, Ex const& e, int (*val_of)(idx const*), char const* slot) {
	if(a.num_elements() != count(e)) { return std::string(slot) + ": num_elements " + std::to_string(a.num_elements()) + " expected " + std::to_string(count(e)); }
	if(count(e) == 0) { return a.is_empty() ? "" : std::string(slot) + ": not empty"; }
	if(!(a.extensions() == X(e))) { return std::string(slot) + ": extensions (sizes or index bases) differ"; }
	std::string r;
	for_tuples(e, [&](idx const* t) { if(!r.empty()) { return; } int got = instr::val(static_cast<typename A::element_type const&>(at(a, t))); if(got != val_of(t)) { std::string ts; for(int j = 0; j < D; ++j) { ts += (j ? "," : "") + std::to_string(t[j]); } r = std::string(slot) + ": element (" + ts + ") = " + std::to_string(got) + " expected " + std::to_string(val_of(t)); } });
	return r;
}

template<class T>
static Outcome run_pair(Ext const& ea, Ext const& eb, int form) {
	using Alloc = typename TI<T>::alloc; using Arr = multi::array<T, D, Alloc>;
	using OArr = multi::array<typename TI<T>::other, D>; using AArr = multi::array<T, D, typename TI<T>::otheralloc>;
	Outcome out; W.reset(); FT::nctor = FT::ndtor = 0;
	auto fail = [&](std::string o, std::string d) { if(out.ok) { out.ok = false; out.oracle = std::move(o); out.detail = std::move(d); } };
	{
		Arr a(X(ea), T(0)); for_tuples(ea, [&](idx const* t) { at(a, t) = T(codea(t)); });
		Arr b(X(eb), T(0)); for_tuples(eb, [&](idx const* t) { at(b, t) = T(codeb(t)); });
		bool const cf = W.count_faults; W.count_faults = false;
		OArr ob(X(eb)); for_tuples(eb, [&](idx const* t) { at(ob, t) = static_cast<typename TI<T>::other>(codeb(t)); });
		AArr ab(X(eb), T(0)); for_tuples(eb, [&](idx const* t) { at(ab, t) = T(codeb(t)); });
		W.count_faults = cf;
		std::unique_ptr<Arr> c;   // constructed result, if the form constructs
		Arr* dst = &a; bool b_moved = false, swapped = false; std::string why;
		long const nc = W.ncopy, nm = W.nmove, na = W.nassign, nma = W.nmassign, nal = W.nalloc;
		switch(form) {
			case F_COPY_ASSIGN: a = b; break;
			case F_MOVE_ASSIGN: a = std::move(b); b_moved = true; break;
			case F_CONVERTING_ASSIGN: a = ob; break;
			case F_OTHER_ALLOC_ASSIGN: a = ab; break;
			case F_VIEW_ASSIGN: if(count(eb) == 0) { return out; } a = b(); break;
			case F_CONST_VIEW_ASSIGN: if(count(eb) == 0) { return out; } a = std::as_const(b)(); break;
			case F_COPY_CTOR: c = std::make_unique<Arr>(b); dst = c.get(); break;
			case F_MOVE_CTOR: c = std::make_unique<Arr>(std::move(b)); dst = c.get(); b_moved = true; break;
			case F_CONVERTING_CTOR: c = std::make_unique<Arr>(ob); dst = c.get(); break;
			case F_VIEW_CTOR: if(count(eb) == 0) { return out; } c = std::make_unique<Arr>(b()); dst = c.get(); break;
			case F_SWAP: { using std::swap; swap(a, b); swapped = true; break; }
			case F_MEMBER_SWAP: a.swap(b); swapped = true; break;
			case F_DECAY: if(count(eb) == 0) { return out; } a = +b; break;
			case F_POLICY_COPY_CTOR:
#ifdef PM_HAVE_EXECUTION
				c = std::make_unique<Arr>(std::execution::seq, b); dst = c.get(); break;
#else
				return out;
#endif
			default: { auto& ra = a; a = ra; break; }
		}
		if(form == F_SELF_ASSIGN) { why = cmp_to(a, ea, codea, "a"); if(!why.empty()) { fail("self-assignment-changed-the-array", why); } if(W.nalloc != nal || W.ncopy != nc) { fail("self-assignment-copied-or-allocated", ""); } }
		else {
			why = cmp_to(*dst, eb, codeb, "destination"); if(!why.empty()) { fail(why.find("extensions") != std::string::npos ? "destination-extensions" : (why.find("num_elements") != std::string::npos ? "destination-num_elements" : "destination-values"), why); }
			if(swapped) { why = cmp_to(b, ea, codea, "b after swap"); if(!why.empty()) { fail("swap-second-operand", why); } }
			else if(b_moved) {
				if(b.num_elements() != 0 || !b.is_empty()) { fail("moved-from-not-empty", "source has " + std::to_string(b.num_elements()) + " elements after the move"); }
				if(W.ncopy != nc || W.nmove != nm || W.nassign != na || W.nmassign != nma) { fail("move-touched-elements", "element special members ran during a move of a resizable array"); }
				b = *dst;   // the moved-from array must be assignable ...
				why = cmp_to(b, eb, codeb, "moved-from source re-assigned"); if(!why.empty()) { fail("moved-from-not-assignable", why); }
			} else { why = cmp_to(b, eb, codeb, "source"); if(!why.empty()) { fail("source-changed", why); } }
			if((swapped || b_moved) && form != F_MOVE_CTOR && std::is_same_v<T, instr::E> && (W.ncopy != nc && !b_moved)) { fail("swap-touched-elements", ""); }
			// independence: no shared storage; a write to the destination is invisible to the source and vice versa
			if(out.ok && count(eb) > 0 && !swapped) {
				auto r1 = std::make_pair(reinterpret_cast<char const*>(rawp(dst->data_elements())), reinterpret_cast<char const*>(rawp(dst->data_elements()) + dst->num_elements()));
				auto r2 = std::make_pair(reinterpret_cast<char const*>(rawp(b.data_elements())), reinterpret_cast<char const*>(rawp(b.data_elements()) + b.num_elements()));
				if(r1.first < r2.second && r2.first < r1.second) { fail("shared-storage", "destination and source overlap in memory"); }
				else { dst->data_elements()[0] = T(-1); idx t0[4]; for(int j = 0; j < D; ++j) { t0[j] = eb[static_cast<std::size_t>(j)].first; } if(instr::val(static_cast<T const&>(at(b, t0))) != codeb(t0)) { fail("write-through", "a write to the destination changed the source"); } }
			}
		}
		if(!W.errs.empty()) { fail("registry:" + W.errs[0], ""); }
	}
	if(out.ok && FT::nctor != FT::ndtor) { out.ok = false; out.oracle = "leak-element"; out.detail = std::to_string(FT::nctor) + " objects constructed, " + std::to_string(FT::ndtor) + " destroyed"; }
	if(out.ok) { if(!W.errs.empty()) { out.ok = false; out.oracle = "registry-at-destruction:" + W.errs[0]; } else if(!W.blocks.empty()) { out.ok = false; out.oracle = "leak-block"; } else if(!W.alive.empty()) { out.ok = false; out.oracle = "leak-element"; } }
	return out;
}

static long g_evals = 0, g_nontrivial = 0;

template<class T>
static void grid(std::vector<Ext> const& exts, long shard, long nshards, std::string const& prop) {
	std::string tn = TI<T>::name;
	for(std::size_t ai = 0; ai < exts.size(); ++ai) {
		if(static_cast<long>(ai % static_cast<std::size_t>(nshards)) != shard) { continue; }
		if(mc::past_deadline()) { mc::R.exhaustive = false; return; }
		struct Item { std::size_t bi; int f; };
		std::vector<Item> items; for(std::size_t bi = 0; bi < exts.size(); ++bi) { for(int f = 0; f < NFORMS; ++f) { if(f == F_SELF_ASSIGN && bi != 0) { continue; } items.push_back({bi, f}); } }
		mc::cur_set("pair", tn + ":" + str(exts[ai]));
		auto outs = isolated(static_cast<int>(items.size()), [&](int i) { auto const& it = items[static_cast<std::size_t>(i)]; return run_pair<T>(exts[ai], exts[it.bi], it.f); });
		for(std::size_t i = 0; i < items.size(); ++i) {
			++g_evals; auto const& it = items[i];
			if(count(exts[ai]) > 0 && count(exts[it.bi]) > 0 && exts[ai] != exts[it.bi]) { ++g_nontrivial; }
			if(outs[i].ok) { continue; }
			bool monitor = outs[i].oracle.rfind("registry", 0) == 0 || outs[i].oracle.rfind("leak", 0) == 0;
			std::string owner = monitor ? "C08" : "C04";
			if(prop != "all" && prop != owner) { continue; }
			std::string rp = tn + "|" + str(exts[ai]) + "|" + str(exts[it.bi]) + "|" + std::to_string(it.f);
			bool same_sizes = true; for(int j = 0; j < D; ++j) { auto u = static_cast<std::size_t>(j); if(exts[ai][u].second - exts[ai][u].first != exts[it.bi][u].second - exts[it.bi][u].first) { same_sizes = false; } }
			std::string rel = exts[ai] == exts[it.bi] ? "same-extensions" : (same_sizes ? "same-sizes-other-index-bases" : (count(exts[ai]) == count(exts[it.bi]) ? "same-count" : "different-count"));
			mc::R.violation("D" + std::to_string(D) + "|" + tn + "|" + fname[it.f] + "[" + rel + "]|" + outs[i].oracle.substr(0, outs[i].oracle.find('(')),
				mc::J().s("harness", "pairmc").s("replay", rp).s("element_type", tn).s("destination_extensions", str(exts[ai])).s("source_extensions", str(exts[it.bi])).s("op", fname[it.f]).s("oracle", outs[i].oracle).s("detail", outs[i].detail).str());
		}
		if(mc::R.samples.size() < 3 && ai == exts.size()/2) { mc::R.sample(mc::J().s("config", "pairmc D=" + std::to_string(D) + " element=" + tn).s("destination_extensions", str(exts[ai])).s("source_extensions", "all " + std::to_string(exts.size()) + " of the grid").s("forms", "all " + std::to_string(static_cast<int>(NFORMS))).str()); }
	}
}

int main(int argc, char** argv) {
	mc::Args args(argc, argv);
	bool thorough = args.get("tier", "quick") == "thorough";
	long shard = args.geti("shard", 0), nshards = args.geti("nshards", 1);
	std::string prop = args.get("prop", "all");
	mc::set_deadline(static_cast<double>(args.geti("deadline", 3000)));
	if(args.has("replay")) {
		std::string r = args.get("replay"); std::vector<std::string> f; { std::size_t a = 0; for(;;) { auto t = r.find('|', a); if(t == std::string::npos) { f.push_back(r.substr(a)); break; } f.push_back(r.substr(a, t - a)); a = t + 1; } }
		if(f.size() != 4) { std::printf("REPLAY cannot parse\n"); return 2; }
		auto pe = [](std::string const& s) { Ext e; std::size_t p = 0; while((p = s.find('[', p)) != std::string::npos) { auto c = s.find(',', p); auto q = s.find(')', c); e.push_back({std::atol(s.substr(p + 1, c - p - 1).c_str()), std::atol(s.substr(c + 1, q - c - 1).c_str())}); p = q; } return e; };
		Ext ea = pe(f[1]), eb = pe(f[2]); int form = std::atoi(f[3].c_str());
		auto outs = isolated(1, [&](int) { return f[0] == "int" ? run_pair<int>(ea, eb, form) : f[0] == "tracked" ? run_pair<instr::E>(ea, eb, form) : run_pair<FT>(ea, eb, form); });
		std::printf("REPLAY %s %s %s\n", outs[0].ok ? "OK" : "VIOLATION", outs[0].oracle.c_str(), outs[0].detail.c_str()); return outs[0].ok ? 0 : 1;
	}
	auto exts = all_exts(thorough);
	grid<int>(exts, shard, nshards, prop);
	grid<instr::E>(exts, shard, nshards, prop);
	grid<FT>(exts, shard, nshards, prop);
	mc::R.add("evaluations", g_evals); mc::R.add("transitions", g_evals); mc::R.add("states", static_cast<long long>(exts.size())); mc::R.add("distinct_nontrivial", g_nontrivial);
	mc::R.note("pairmc D=" + std::to_string(D) + ": " + std::to_string(exts.size()) + " index extensions, every ordered (destination, source) pair x " + std::to_string(static_cast<int>(NFORMS)) + " forms x 3 element types");
	mc::R.emit(stdout);
	return 0;
}
