// C03 — standard algorithms on begin()/end() of 1-D views (element references), of D=2/3 views (proxy sub-views) and on elements() ranges,
// for all small data, against the same std:: algorithm on a vector of independent values.   -DALG_KIND=<0 scalar 1-D | 1 proxy | 2 elements()>
#include <algorithm>
#include <numeric>

#include "../engine/view_model.hpp"
#include "../engine/view_oracle.hpp"

using namespace vm;

#ifndef ALG_KIND
#define ALG_KIND 0
#endif

using Val = std::vector<int>;   // a scalar is a 1-vector, a row is its flattened contents: lexicographic order coincides with the library's nested order for equal extents
using Seq = std::vector<Val>;

template<int D, class Root> void run_root(Root&, int const*, idx, std::vector<idx> const&, std::string const&, std::string const&, Config const&, std::set<std::string> const&) {}
#include "../engine/view_roots.hpp"

struct ViewSpec { std::vector<idx> root; std::string hist; };
static std::string vr_name(ViewSpec const& v);
static std::vector<ViewSpec> view_menu(bool thorough) {
	std::vector<ViewSpec> v;
#if ALG_KIND == 0
	v = {{{5}, ""}, {{6}, "strided(2)"}, {{6}, "sliced(1,5)"}, {{0}, ""}, {{1}, ""}, {{4, 5}, "index(1)"}, {{4, 5}, "rotated();index(2)"}, {{5, 4}, "diagonal()"}, {{4, 5}, "index(2);sliced(1,5)"}, {{4, 6}, "index(0);strided(2)"},
	     {{2, 4, 3}, "rotated();index(1);index(1)"}, {{4, 5}, "call(r0:4,i3)"}};
	if(thorough) { v.push_back({{6}, ""}); v.push_back({{3, 6}, "flatted();sliced3(0,18,3)"}); v.push_back({{2, 3, 4}, "index(1);transposed();index(2)"}); }
#elif ALG_KIND == 1
	v = {{{4, 2}, ""}, {{2, 4}, "transposed()"}, {{2, 4}, "rotated()"}, {{5, 3}, "call(r1:5,r0:2)"}, {{6, 2}, "strided(2)"}, {{3, 5}, "rotated();sliced(1,5);strided(2)"}, {{0, 2}, ""}, {{1, 2}, ""},
	     {{3, 2, 1}, ""}, {{2, 1, 3}, "rotated()"}, {{1, 3, 2}, "unrotated()"}, {{2, 3, 1}, "transposed()"}, {{4, 3, 2}, "call(_,r0:2,r1:2)"}};
	if(thorough) { v.push_back({{2, 5}, "transposed()"}); v.push_back({{5, 2}, ""}); v.push_back({{2, 2, 2}, "rotated()"}); }
#else
	v = {{{2, 2}, ""}, {{2, 3}, "rotated()"}, {{3, 2}, "transposed()"}, {{4, 3}, "call(r1:3,r0:2)"}, {{4, 2}, "strided(2)"}, {{0, 3}, ""}, {{3, 1}, "rotated()"},
	     {{2, 2, 1}, "rotated()"}, {{1, 2, 2}, "unrotated()"}, {{2, 1, 2}, "transposed()"}, {{3, 2, 2}, "call(r1:3,_,r0:1)"}};
	if(thorough) { v.push_back({{3, 2}, "rotated()"}); v.push_back({{2, 3}, ""}); v.push_back({{2, 2, 2}, "rotated()"}); }
#endif
	return v;
}

static long g_evals = 0, g_nontrivial = 0; static std::set<std::string> g_distinct;

// first scalar of a range element
inline int firstel(int x) { return x; }
template<class V, class = decltype(std::declval<V const&>().extensions())> int firstel(V const& v) { if constexpr(rank_of<V> == 1) { return v[0]; } else { return firstel(v[0]); } }

struct Ctx {
	std::string replay, viewname, kind; std::vector<std::vector<idx>> groups;  // per range element: buffer offsets of its scalars
	int* d1; int* d2; idx N; std::vector<int> init1, init2;
	void reset() { std::copy(init1.begin(), init1.end(), d1); std::copy(init2.begin(), init2.end(), d2); }
	Seq read(int const* d) const { Seq s; for(auto const& g : groups) { Val v; for(auto o : g) { v.push_back(d[o]); } s.push_back(v); } return s; }
	std::vector<int> expect(std::vector<int> const& base, Seq const& s, std::size_t upto) const { std::vector<int> e(base); for(std::size_t i = 0; i < upto && i < groups.size(); ++i) { for(std::size_t j = 0; j < groups[i].size(); ++j) { e[static_cast<std::size_t>(groups[i][j])] = s[i][j]; } } return e; }
};

static void viol(Ctx const& c, std::string const& alg, std::string const& why, std::string const& detail) {
	mc::R.violation(c.kind + "|" + alg + "|" + why, mc::J().s("harness", "algomc").s("replay", c.replay + "#" + alg).s("view", c.viewname).s("algorithm", alg).s("oracle", why).s("detail", detail).str());
}
static std::string sstr(Seq const& s) { std::string r; for(auto const& v : s) { r += "["; for(int x : v) { r += std::to_string(x); } r += "]"; } return r; }

// compare whole buffers
static bool same(std::vector<int> const& e, int const* d) { return std::equal(e.begin(), e.end(), d); }

// make a value of the range's value_type from a model Val
template<class It> auto make_value(It it, Val const& v) {
	using R = std::decay_t<decltype(*it)>;
	if constexpr(std::is_same_v<R, int>) { return v[0]; }
	else { typename std::iterator_traits<It>::value_type a(*it); std::copy(v.begin(), v.end(), a.data_elements()); return a; }
}

// run every algorithm on [b,e) (and [b2,e2) as the second range living in buffer 2)
template<class B, class B2>
void run_algorithms(Ctx& c, B b, B e, B2 b2, std::string const& only) {
	auto n = static_cast<std::size_t>(e - b);
	auto dist = [&](B it) { return static_cast<std::size_t>(it - b); };
	auto want = [&](char const* a) { return only.empty() || only == a; };
	Seq const orig = c.read(c.d1), orig2 = c.read(c.d2);
	auto lessfirst = [](auto const& x) { return firstel(x) < 1; };
	auto mlessfirst = [](Val const& x) { return x[0] < 1; };
	auto check_full = [&](char const* alg, Seq const& ref, std::size_t ret, std::size_t ret_ref, bool has_ret) {
		++g_evals;
		if(has_ret && ret != ret_ref) { viol(c, alg, "returned-position", "returned begin+" + std::to_string(ret) + " expected begin+" + std::to_string(ret_ref) + " data " + sstr(orig)); return; }
		if(!same(c.expect(c.init1, ref, n), c.d1)) {
			bool outside = !same(c.expect(std::vector<int>(c.d1, c.d1 + c.N), orig, 0), c.d1); (void)outside;
			viol(c, alg, "result", "data " + sstr(orig) + " expected " + sstr(ref) + " got " + sstr(c.read(c.d1)));
		}
	};
	auto outside_untouched = [&](char const* alg) {   // everything not viewed keeps its initial value
		std::vector<int> cur(c.d1, c.d1 + c.N); std::set<idx> in; for(auto const& g : c.groups) { for(auto o : g) { in.insert(o); } }
		for(idx i = 0; i < c.N; ++i) { if(!in.count(i) && cur[static_cast<std::size_t>(i)] != c.init1[static_cast<std::size_t>(i)]) { viol(c, alg, "wrote-outside-view", "offset " + std::to_string(i) + " data " + sstr(orig)); return false; } }
		return true;
	};
	auto is_perm = [&](Seq a, Seq bb) { std::sort(a.begin(), a.end()); std::sort(bb.begin(), bb.end()); return a == bb; };

	if(want("sort")) { c.reset(); std::sort(b, e); Seq r = orig; std::sort(r.begin(), r.end()); check_full("sort", r, 0, 0, false); }
	if(want("stable_sort")) { c.reset(); std::stable_sort(b, e); Seq r = orig; std::stable_sort(r.begin(), r.end()); check_full("stable_sort", r, 0, 0, false); }
	if(want("reverse")) { c.reset(); std::reverse(b, e); Seq r = orig; std::reverse(r.begin(), r.end()); check_full("reverse", r, 0, 0, false); }
	for(std::size_t m = 0; m <= n; ++m) {
		auto mi = static_cast<std::ptrdiff_t>(m);
		if(want("rotate")) { c.reset(); auto it = std::rotate(b, b + mi, e); Seq r = orig; auto rit = std::rotate(r.begin(), r.begin() + mi, r.end()); check_full("rotate", r, dist(it), static_cast<std::size_t>(rit - r.begin()), true); }
		if(want("partial_sort")) {
			c.reset(); std::partial_sort(b, b + mi, e); ++g_evals; Seq got = c.read(c.d1); Seq r = orig; std::sort(r.begin(), r.end());
			bool ok = is_perm(got, orig) && std::equal(got.begin(), got.begin() + mi, r.begin());
			if(!ok) { viol(c, "partial_sort", "postcondition", "middle=" + std::to_string(m) + " data " + sstr(orig) + " got " + sstr(got)); } else { outside_untouched("partial_sort"); }
		}
		if(m < n && want("nth_element")) {
			c.reset(); std::nth_element(b, b + mi, e); ++g_evals; Seq got = c.read(c.d1); Seq r = orig; std::sort(r.begin(), r.end());
			bool ok = is_perm(got, orig) && got[m] == r[m];
			for(std::size_t i = 0; i < m && ok; ++i) { if(got[m] < got[i]) { ok = false; } } for(std::size_t i = m + 1; i < n && ok; ++i) { if(got[i] < got[m]) { ok = false; } }
			if(!ok) { viol(c, "nth_element", "postcondition", "nth=" + std::to_string(m) + " data " + sstr(orig) + " got " + sstr(got)); } else { outside_untouched("nth_element"); }
		}
	}
	if(want("partition")) {
		c.reset(); auto it = std::partition(b, e, lessfirst); ++g_evals; Seq got = c.read(c.d1); auto cnt = static_cast<std::size_t>(std::count_if(orig.begin(), orig.end(), mlessfirst));
		bool ok = is_perm(got, orig) && dist(it) == cnt && std::all_of(got.begin(), got.begin() + static_cast<std::ptrdiff_t>(cnt), mlessfirst) && std::none_of(got.begin() + static_cast<std::ptrdiff_t>(cnt), got.end(), mlessfirst);
		if(!ok) { viol(c, "partition", "postcondition", "data " + sstr(orig) + " got " + sstr(got) + " returned begin+" + std::to_string(dist(it))); } else { outside_untouched("partition"); }
	}
	if(want("unique")) {
		c.reset(); auto it = std::unique(b, e); ++g_evals; Seq r = orig; auto rit = std::unique(r.begin(), r.end()); auto k = static_cast<std::size_t>(rit - r.begin());
		Seq got = c.read(c.d1);
		if(dist(it) != k) { viol(c, "unique", "returned-position", "data " + sstr(orig)); }
		else if(!std::equal(r.begin(), rit, got.begin())) { viol(c, "unique", "result-prefix", "data " + sstr(orig) + " got " + sstr(got)); } else { outside_untouched("unique"); }
	}
	if(n > 0 && want("remove")) {
		for(std::size_t w = 0; w < n; ++w) {
			c.reset(); auto val = make_value(b, orig[w]); auto it = std::remove(b, e, val); ++g_evals; Seq r = orig; auto rit = std::remove(r.begin(), r.end(), orig[w]); auto k = static_cast<std::size_t>(rit - r.begin());
			Seq got = c.read(c.d1);
			if(dist(it) != k) { viol(c, "remove", "returned-position", "value " + sstr({orig[w]}) + " data " + sstr(orig)); }
			else if(!std::equal(r.begin(), rit, got.begin())) { viol(c, "remove", "result-prefix", "data " + sstr(orig) + " got " + sstr(got)); } else { outside_untouched("remove"); }
		}
	}
	if(n > 0 && want("fill")) { c.reset(); auto val = make_value(b, orig.back()); std::fill(b, e, val); Seq r(n, orig.back()); check_full("fill", r, 0, 0, false); }
	if(n > 0 && want("find")) {
		for(std::size_t w = 0; w < n; ++w) { c.reset(); auto val = make_value(b, orig[w]); auto it = std::find(b, e, val); ++g_evals; auto rit = std::find(orig.begin(), orig.end(), orig[w]); if(dist(it) != static_cast<std::size_t>(rit - orig.begin())) { viol(c, "find", "returned-position", "data " + sstr(orig)); } if(!same(c.init1, c.d1)) { viol(c, "find", "modified-range", ""); } }
	}
	if(want("is_sorted")) { c.reset(); bool g = std::is_sorted(b, e); ++g_evals; if(g != std::is_sorted(orig.begin(), orig.end())) { viol(c, "is_sorted", "returned-value", "data " + sstr(orig)); } }
	if(want("accumulate")) { c.reset(); int g = std::accumulate(b, e, 0, [](int s, auto const& x) { return s + firstel(x); }); ++g_evals; int r = 0; for(auto const& v : orig) { r += v[0]; } if(g != r) { viol(c, "accumulate", "returned-value", "data " + sstr(orig)); } }
	if(want("transform")) {
		c.reset(); ++g_evals;
		std::transform(b, e, b, [](auto const& x) { using R = std::decay_t<decltype(x)>; if constexpr(std::is_same_v<R, int>) { return x + 10; } else { auto a = +x; for(idx i = 0; i < a.num_elements(); ++i) { a.data_elements()[i] += 10; } return a; } });
		Seq r = orig; for(auto& v : r) { for(auto& x : v) { x += 10; } }
		if(!same(c.expect(c.init1, r, n), c.d1)) { viol(c, "transform", "result", "data " + sstr(orig) + " got " + sstr(c.read(c.d1))); }
	}
	// two-range algorithms: second range = same view of a second root (values orig2)
	auto e2 = b2 + (e - b);
	if(want("copy")) { c.reset(); auto it = std::copy(b, e, b2); ++g_evals; if(static_cast<std::size_t>(it - b2) != n || !same(c.expect(c.init2, orig, n), c.d2) || !same(c.init1, c.d1)) { viol(c, "copy", "result", "data " + sstr(orig)); } }
	if(want("copy_backward")) { c.reset(); auto it = std::copy_backward(b, e, e2); ++g_evals; if(it != b2 || !same(c.expect(c.init2, orig, n), c.d2) || !same(c.init1, c.d1)) { viol(c, "copy_backward", "result", "data " + sstr(orig) + " got " + sstr(c.read(c.d2))); } }
	if(want("move")) { c.reset(); auto it = std::move(b, e, b2); ++g_evals; if(static_cast<std::size_t>(it - b2) != n || !same(c.expect(c.init2, orig, n), c.d2)) { viol(c, "move", "result", "data " + sstr(orig)); } }
	if(want("swap_ranges")) { c.reset(); auto it = std::swap_ranges(b, e, b2); ++g_evals; if(static_cast<std::size_t>(it - b2) != n || !same(c.expect(c.init2, orig, n), c.d2) || !same(c.expect(c.init1, orig2, n), c.d1)) { viol(c, "swap_ranges", "result", "data " + sstr(orig) + " / " + sstr(orig2)); } }
	if(want("equal")) { c.reset(); bool g = std::equal(b, e, b2); ++g_evals; if(g != (orig == orig2)) { viol(c, "equal", "returned-value", "data " + sstr(orig) + " vs " + sstr(orig2)); } }
	if(want("lexicographical_compare")) { c.reset(); bool g = std::lexicographical_compare(b, e, b2, e2); ++g_evals; if(g != std::lexicographical_compare(orig.begin(), orig.end(), orig2.begin(), orig2.end())) { viol(c, "lexicographical_compare", "returned-value", "data " + sstr(orig) + " vs " + sstr(orig2)); } }
	if(!c.groups.empty()) { c.reset(); }
}

template<int D>
void run_view(ViewSpec const& vs, bool thorough, std::string const& only_data, std::string const& only_alg) {
	idx N = 1; for(auto s : vs.root) { N *= s; }
	vo::GuardBuffer<int> g1(N), g2(N);
	auto exts = vo::make_extensions<D>(vs.root);
	multi::array_ref<int, D> r1(exts, g1.data()), r2(exts, g2.data());
	Hist h = parse_hist(vs.hist);
	MView m = root_model(vs.root); for(auto const& o : h) { if(!m_apply(m, o)) { std::fprintf(stderr, "bad view menu entry %s\n", vs.hist.c_str()); std::exit(3); } }
	Ctx c; c.d1 = g1.data(); c.d2 = g2.data(); c.N = N; c.viewname = vr_name(vs);
	c.kind = ALG_KIND == 0 ? "begin/end of 1-D view" : ALG_KIND == 1 ? ("begin/end of " + std::to_string(m.rank()) + "-D view (proxy references)") : ("elements() of " + std::to_string(m.rank()) + "-D view");
	// groups of offsets per range element
	{
		std::vector<idx> all; for_each_index(m, [&](std::vector<idx> const&, idx off) { all.push_back(off); });
#if ALG_KIND == 1
		std::size_t per = m.d[0].size ? all.size()/static_cast<std::size_t>(m.d[0].size) : 0;
		for(idx i = 0; i < m.d[0].size; ++i) { c.groups.emplace_back(all.begin() + static_cast<std::ptrdiff_t>(static_cast<std::size_t>(i)*per), all.begin() + static_cast<std::ptrdiff_t>((static_cast<std::size_t>(i) + 1)*per)); }
		if(m.has_empty_dim()) { c.groups.assign(static_cast<std::size_t>(m.d[0].size), {}); }
#else
		for(auto o : all) { c.groups.push_back({o}); }
#endif
	}
	std::size_t nscalars = 0; for(auto const& g : c.groups) { nscalars += g.size(); }
	int alpha = (ALG_KIND == 1 || nscalars > 5) ? 2 : 3; if(thorough && ALG_KIND == 1 && nscalars <= 6) { alpha = 3; }
	long combos = 1; for(std::size_t i = 0; i < nscalars; ++i) { combos *= alpha; }
	std::vector<idx> flat; for(auto const& g : c.groups) { for(auto o : g) { flat.push_back(o); } }
	for(long code = 0; code < combos; ++code) {
		if(mc::past_deadline()) { mc::R.exhaustive = false; return; }
		c.init1.assign(static_cast<std::size_t>(N), 0); c.init2.assign(static_cast<std::size_t>(N), 0);
		for(idx i = 0; i < N; ++i) { c.init1[static_cast<std::size_t>(i)] = static_cast<int>(1000 + i); c.init2[static_cast<std::size_t>(i)] = static_cast<int>(2000 + i); }
		long q = code, q2 = (code*7 + 3) % combos;
		std::string ds;
		for(auto o : flat) { c.init1[static_cast<std::size_t>(o)] = static_cast<int>(q % alpha); ds += std::to_string(q % alpha); q /= alpha; c.init2[static_cast<std::size_t>(o)] = static_cast<int>(q2 % alpha); q2 /= alpha; }
		c.replay = std::to_string(ALG_KIND) + "/" + vr::sizes_str(vs.root) + "/" + vs.hist + "/" + std::to_string(code);
		if(!only_data.empty() && only_data != c.replay) { continue; }
		mc::cur_set(c.kind, c.replay);
		c.reset();
		bool ran = false;
		walk(r1(), h.data(), static_cast<int>(h.size()), [&](auto&& v1) { walk(r2(), h.data(), static_cast<int>(h.size()), [&](auto&& v2) {
			if constexpr(!is_ro_v<decltype(v1)> && !is_ro_v<decltype(v2)> && rank_of<decltype(v1)> == rank_of<decltype(v2)>) {
#if ALG_KIND == 0
				if constexpr(rank_of<decltype(v1)> == 1) { run_algorithms(c, v1.begin(), v1.end(), v2.begin(), only_alg); ran = true; }
#elif ALG_KIND == 1
				if constexpr(rank_of<decltype(v1)> >= 2 && rank_of<decltype(v1)> <= 3) { run_algorithms(c, v1.begin(), v1.end(), v2.begin(), only_alg); ran = true; }
#else
				if constexpr(rank_of<decltype(v1)> >= 2 && rank_of<decltype(v1)> <= 3) { auto&& e1 = v1.elements(); auto&& e2 = v2.elements(); run_algorithms(c, e1.begin(), e1.end(), e2.begin(), only_alg); ran = true; }
#endif
			}
		}); });
		if(!ran) { mc::R.note("view not usable (read-only type or rank): " + c.viewname); return; }
		if(!g1.intact() || !g2.intact()) { viol(c, "any", "guard-overwritten", ds); }
		if(nscalars >= 2) { ++g_nontrivial; }
		if(mc::R.samples.size() < 4 && code == combos/2 && nscalars >= 4) { mc::R.sample(mc::J().s("range", c.kind).s("view", c.viewname).s("data_code", ds).s("algorithms", "all 20").str()); }
	}
	mc::R.note(c.kind + " " + c.viewname + ": " + std::to_string(c.groups.size()) + " range elements, " + std::to_string(combos) + " data assignments over {0.." + std::to_string(alpha - 1) + "}");
}

static std::string vr_name(ViewSpec const& v) { return "array_ref{" + vr::sizes_str(v.root) + "}" + (v.hist.empty() ? std::string() : "." + v.hist); }

int main(int argc, char** argv) {
	mc::Args args(argc, argv);
	bool thorough = args.get("tier", "quick") == "thorough";
	mc::set_deadline(static_cast<double>(args.geti("deadline", 3000)));
	std::string only_data, only_alg;
	if(args.has("replay")) { std::string r = args.get("replay"); auto h = r.find('#'); only_data = r.substr(0, h); if(h != std::string::npos) { only_alg = r.substr(h + 1); if(only_alg == "any") { only_alg.clear(); } } }
	auto body = [&](std::set<std::string> const&) {
		for(auto const& vs : view_menu(thorough)) {
			switch(vs.root.size()) {
				case 1: run_view<1>(vs, thorough, only_data, only_alg); break;
				case 2: run_view<2>(vs, thorough, only_data, only_alg); break;
				case 3: run_view<3>(vs, thorough, only_data, only_alg); break;
				default: break;
			}
		}
		mc::R.add("evaluations", g_evals); mc::R.add("distinct_nontrivial", g_nontrivial);
		mc::R.emit(stdout);
	};
	if(args.has("replay")) { std::set<std::string> none; body(none); std::printf("REPLAY %s (%ld algorithm runs)\n", mc::R.viol.empty() ? "OK" : "VIOLATION", g_evals); for(auto const& [k, v] : mc::R.viol) { std::printf("  %s %s\n", k.c_str(), v.second.substr(0, 400).c_str()); } return mc::R.viol.empty() ? 0 : 1; }
	return mc::supervise(body);
}
