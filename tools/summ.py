#!/usr/bin/env python3
"""Summarise harness protocol output (stdin): violation keys with counts and a trimmed detail; stats without samples."""
import sys, json, collections
n = int(sys.argv[1]) if len(sys.argv) > 1 else 25
keys = collections.OrderedDict()
for l in sys.stdin:
    p = l.rstrip("\n").split("\t")
    if p[0] == "V" and len(p) >= 3:
        try: j = json.loads(p[2])
        except Exception: j = {"rec": {"raw": p[2][:150]}}
        r = j.get("rec") or {}
        d = (r.get("detail") or r.get("stderr") or "")[-160:]
        t = (r.get("replay") or r.get("trace") or "")[:80]
        k = p[1]
        if k not in keys: keys[k] = [0, t, d]
        keys[k][0] += j.get("count", 1)
    elif p[0] == "S":
        j = json.loads(p[1]); j.pop("samples", None); notes = j.pop("notes", [])
        print("STATS", json.dumps(j)[:600]); [print("  note:", x[:200]) for x in notes[:6]]
    elif l.strip():
        print("??", l[:200].rstrip())
print("distinct violation keys:", len(keys))
for i, (k, (c, t, d)) in enumerate(keys.items()):
    if i >= n: print("  ..."); break
    print("  x%-5d %s\n         trace=%s | %s" % (c, k[:150], t, d))
