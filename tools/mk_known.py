#!/usr/bin/env python3
"""Developer tool (never run by checks): turn the viol_*.json replays of the last run of <ID> into known_findings.json entries.
usage: tools/mk_known.py <ID> '<what-template with {key} {op} {detail}>' [key-substring filter]"""
import json, sys, glob, os
pid, tmpl = sys.argv[1], sys.argv[2]
flt = sys.argv[3] if len(sys.argv) > 3 else ""
here = os.path.dirname(os.path.dirname(os.path.abspath(__file__)))
kf = json.load(open(os.path.join(here, "known_findings.json")))
have = {(k["property"], k["key"]) for k in kf["known"]}
n = 0
for f in sorted(glob.glob(os.path.join(here, "replays", pid, "viol_*.json"))):
    r = json.load(open(f)); key = r["key"]
    if flt and flt not in key: continue
    if (pid, key) in have: continue
    rec = r.get("rec") or {}
    what = tmpl.format(key=key, op=rec.get("op", ""), detail=(rec.get("detail") or rec.get("first_error") or "")[:160], history=rec.get("history", ""), replay=rec.get("replay", ""))
    kf["known"].append({"property": pid, "key": key, "what": what, "witness_replay_arg": rec.get("replay") or rec.get("trace"), "harness": r.get("harness"), "defs": r.get("defs")})
    n += 1
json.dump(kf, open(os.path.join(here, "known_findings.json"), "w"), indent=1)
print("added", n, "entries for", pid)
