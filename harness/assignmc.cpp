// C05 — assignment through views writes exactly the viewed elements.  All ordered pairs (destination state of root R1,
// source state of root R2) of equal extents from the E1 state sets x every assignment form; oracle = whole guard buffers.
#include "../engine/view_model.hpp"
#include "../engine/view_oracle.hpp"

#include <map>

using namespace vm;

template<int D, class Root> void run_root(Root&, int const*, idx, std::vector<idx> const&, std::string const&, std::string const&, Config const&, std::set<std::string> const&) {}
#include "../engine/view_roots.hpp"
static std::string vr_sizes(std::vector<idx> const& s) { return vr::sizes_str(s); }

struct Saved { Hist h; MView m; };

static std::vector<idx> offsets_of(MView const& m) { std::vector<idx> o; for_each_index(m, [&](std::vector<idx> const&, idx off) { o.push_back(off); }); return o; }
static std::string ext_sig(MView const& m) { std::string s; for(auto const& d : m.d) { s += std::to_string(d.size) + ","; } return s; }

enum Form { F_ASSIGN, F_ASSIGN_MOVED, F_ASSIGN_DECAY, F_ASSIGN_SHORT_ARRAY, F_ASSIGN_SHORT_VIEW, F_ELEMENTS, F_ELEMENTS_MOVED, F_INITLIST, F_VECTOR, F_FILL, F_SWAP_MEMBER, F_SWAP_ADL, F_ASSIGN_RVALUE_DST, F_ELEMENT_MOVED, NFORMS };
static char const* const fname[] = {"dst=src", "dst=std::move(src)", "dst=+src", "dst=array<short>", "dst=array<short>()", "dst.elements()=src.elements()", "dst.elements()=std::move(src).elements()",
	"dst={list}", "dst=std::vector", "dst.fill(x)", "dst.swap(src)", "swap(dst,src)", "std::move(dst)=src", "dst=src.element_moved()"};

enum Expect { E_COPY, E_SWAP, E_FILL, E_SKIP };

template<class DV, class SV>
Expect do_form(int form, DV& dv, SV& sv, MView const& dm) {
	constexpr int D = rank_of<DV>;
	constexpr bool SRC_MUT = !is_ro_v<SV>;
	idx n = dm.d[0].size; idx f = dm.d[0].first;
	switch(form) {
		case F_ASSIGN: dv = sv; return E_COPY;
		case F_ASSIGN_MOVED: if constexpr(SRC_MUT) { dv = std::move(sv); return E_COPY; } else { return E_SKIP; }
		// forms that materialise the source as an owning array: an array with a zero extent collapses its leading sizes (C07), so its extents
		// legitimately differ from the view's; only sources without an empty dimension are in the domain of these forms
		case F_ASSIGN_DECAY: if(dm.has_empty_dim()) { return E_SKIP; } dv = +sv; return E_COPY;
		case F_ASSIGN_SHORT_ARRAY: { if(dm.has_empty_dim()) { return E_SKIP; } multi::array<short, D> t(sv); dv = t; return E_COPY; }
		case F_ASSIGN_SHORT_VIEW: { if(dm.has_empty_dim()) { return E_SKIP; } multi::array<short, D> t(sv); dv = t(); return E_COPY; }
		case F_ELEMENTS: dv.elements() = sv.elements(); return E_COPY;
		case F_ELEMENTS_MOVED: if constexpr(SRC_MUT) { dv.elements() = std::move(sv).elements(); return E_COPY; } else { return E_SKIP; }
		case F_INITLIST:
			if constexpr(D == 1) {
				switch(n) {
					case 0: return E_SKIP;
					case 1: dv = {sv[f]}; return E_COPY;
					case 2: dv = {sv[f], sv[f + 1]}; return E_COPY;
					case 3: dv = {sv[f], sv[f + 1], sv[f + 2]}; return E_COPY;
					case 4: dv = {sv[f], sv[f + 1], sv[f + 2], sv[f + 3]}; return E_COPY;
					default: return E_SKIP;
				}
			} else {
				using VT = typename DV::value_type;  // owning (D-1)-dimensional arrays: same collapse caveat as above
				if(dm.has_empty_dim()) { return E_SKIP; }
				switch(n) {
					case 1: dv = {VT(sv[f])}; return E_COPY;
					case 2: dv = {VT(sv[f]), VT(sv[f + 1])}; return E_COPY;
					case 3: dv = {VT(sv[f]), VT(sv[f + 1]), VT(sv[f + 2])}; return E_COPY;
					default: return E_SKIP;
				}
			}
		case F_VECTOR:
			if constexpr(D == 1) { std::vector<int> t(sv.begin(), sv.end()); dv = t; return E_COPY; } else { return E_SKIP; }
		case F_FILL:
			if(n == 0) { return E_SKIP; }
			if constexpr(D == 1) { dv.fill(sv[f]); } else { dv.fill(sv[f]); }
			return E_FILL;
		case F_SWAP_MEMBER: if constexpr(SRC_MUT) { std::move(dv).swap(std::move(sv)); return E_SWAP; } else { return E_SKIP; }
		case F_SWAP_ADL: if constexpr(SRC_MUT) { using std::swap; swap(std::move(dv), std::move(sv)); return E_SWAP; } else { return E_SKIP; }
		case F_ASSIGN_RVALUE_DST: std::move(dv) = sv; return E_COPY;
		case F_ELEMENT_MOVED: if constexpr(SRC_MUT) { dv = sv.element_moved(); return E_COPY; } else { return E_SKIP; }
		default: return E_SKIP;
	}
}

static long g_pairs = 0, g_runs = 0, g_nontrivial = 0, g_capped_groups = 0;

// C09 clause "assignment through views does not allocate": count heap allocations during a form (ASan builds: sanitizer malloc hook)
static long g_mallocs = 0; static bool g_count_mallocs = false; static bool g_report_alloc = false;
#if defined(__SANITIZE_ADDRESS__)
extern "C" int __sanitizer_install_malloc_and_free_hooks(void (*malloc_hook)(const volatile void*, std::size_t), void (*free_hook)(const volatile void*));
static void on_malloc(const volatile void*, std::size_t) { if(g_count_mallocs) { ++g_mallocs; } }
static void on_free(const volatile void*) {}
static bool const g_hooks_installed = (__sanitizer_install_malloc_and_free_hooks(on_malloc, on_free), true);
#endif
static bool form_must_not_allocate(int form);

template<int D>
void run_pairs(std::vector<idx> const& sizes, Config const& cfg, long cap_per_group, std::set<std::string> const& skip) {
	idx N = 1; for(auto s : sizes) { N *= s; }
	std::string rootname = "array_ref<int," + std::to_string(D) + ">{" + vr_sizes(sizes) + "}";
	vo::GuardBuffer<int> g1(N), g2(N);
	auto exts = vo::make_extensions<D>(sizes);
#ifdef VM_FANCY
	fancy::g = fancy::Stats{};
	multi::array_ref<int, D, fancy::ptr<int>> r1(exts, fancy::make(g1.data(), N)), r2(exts, fancy::make(g2.data(), N));
	rootname = "array_ref<int," + std::to_string(D) + ",fancy::ptr<int>>{" + vr_sizes(sizes) + "}";
#else
	multi::array_ref<int, D> r1(exts, g1.data()), r2(exts, g2.data());
#endif
	// ---- state set (E1 search on r1; r2 has the same shape hence the same states)
	std::vector<Saved> saved;
	auto st = bfs(r1, root_model(sizes), cfg, skip, [&](auto&& v, MView const& m, Hist const& h) -> bool {
		vo::Fail f = vo::check_view(v, m, g1.data(), N);
		if(f.bad) { return false; }
		saved.push_back(Saved{h, m});
		return true;
	}, vr_sizes(sizes) + "/r/");
	mc::R.add("states", st.states); mc::R.add("transitions", st.transitions);
	if(st.capped) { mc::R.exhaustive = false; }
	std::map<std::string, std::vector<std::size_t>> groups;
	for(std::size_t i = 0; i < saved.size(); ++i) { groups[std::to_string(saved[i].m.rank()) + ":" + ext_sig(saved[i].m)].push_back(i); }
	auto reset = [&] { for(idx i = 0; i < N; ++i) { g1.data()[i] = static_cast<int>(1000 + i); g2.data()[i] = static_cast<int>(2000 + i); } };
	std::string prefix = vr_sizes(sizes) + "/";
	for(auto const& [sig, members] : groups) {
		long in_group = 0;
		for(auto di : members) {
			auto const& d = saved[di];
			if(d.m.ro) { continue; }  // const views are not assignable (C16)
			auto od = offsets_of(d.m);
			for(auto si : members) {
				auto const& s = saved[si];
				if(cap_per_group > 0 && in_group >= cap_per_group) { ++g_capped_groups; mc::R.exhaustive = false; goto next_group; }
				if(mc::past_deadline()) { mc::R.exhaustive = false; return; }
				++in_group; ++g_pairs;
				if(od.size() >= 2) { ++g_nontrivial; }
				auto os = offsets_of(s.m);
				for(int form = 0; form < NFORMS; ++form) {
					std::string tr = prefix + hist_str(d.h) + "/" + hist_str(s.h) + "/" + std::to_string(form);
					if(skip.count(tr)) { continue; }
					mc::cur_set(std::string("form:") + fname[form], tr);
					reset();
					std::vector<int> b1(g1.data(), g1.data() + N), b2(g2.data(), g2.data() + N);
					Expect ex = E_SKIP; bool ran = false; std::string post;
					walk(r1(), d.h.data(), static_cast<int>(d.h.size()), [&](auto&& dv) {
						walk(r2(), s.h.data(), static_cast<int>(s.h.size()), [&](auto&& sv) {
							using DV = std::decay_t<decltype(dv)>; using SV = std::decay_t<decltype(sv)>;
							if constexpr(rank_of<DV> == rank_of<SV> && !is_ro_v<DV>) {
								auto base_before = dv.base(); auto lay_before = dv.layout();
								g_mallocs = 0; g_count_mallocs = true;
								ex = do_form(form, dv, sv, d.m); ran = true;
								g_count_mallocs = false;
								if(dv.base() != base_before || !(dv.layout() == lay_before)) { post = "destination view was rebound or resized"; }
							}
						});
					});
					if(!ran || ex == E_SKIP) { continue; }
					++g_runs;
					std::vector<int> e1 = b1, e2 = b2;
					if(ex == E_COPY) { for(std::size_t k = 0; k < od.size(); ++k) { e1[static_cast<std::size_t>(od[k])] = b2[static_cast<std::size_t>(os[k])]; } }
					if(ex == E_SWAP) { for(std::size_t k = 0; k < od.size(); ++k) { e1[static_cast<std::size_t>(od[k])] = b2[static_cast<std::size_t>(os[k])]; e2[static_cast<std::size_t>(os[k])] = b1[static_cast<std::size_t>(od[k])]; } }
					if(ex == E_FILL) {  // every leading slot of dst receives the first leading slot of src
						std::size_t per = d.m.d[0].size ? od.size()/static_cast<std::size_t>(d.m.d[0].size) : 0;
						for(std::size_t k = 0; k < od.size(); ++k) { e1[static_cast<std::size_t>(od[k])] = b2[static_cast<std::size_t>(os[per ? k%per : 0])]; }
					}
					std::string why;
					if(!std::equal(e1.begin(), e1.end(), g1.data())) {
						bool outside = false; std::set<idx> in(od.begin(), od.end());
						for(idx i = 0; i < N; ++i) { if(g1.data()[i] != e1[static_cast<std::size_t>(i)] && !in.count(i)) { outside = true; } }
						why = outside ? "wrote-outside-view" : "wrong-values";
					} else if(!std::equal(e2.begin(), e2.end(), g2.data())) { why = "source-modified"; }
					else if(!g1.intact() || !g2.intact()) { why = "guard-overwritten"; }
					else if(!post.empty()) { why = "rebound"; }
					if(g_report_alloc) { why = (form_must_not_allocate(form) && g_mallocs != 0) ? "allocated" : ""; }
					if(!why.empty()) {
						mc::R.violation("D" + std::to_string(d.m.rank()) + "|" + fname[form] + "|" + why,
							mc::J().s("harness", "assignmc").s("replay", tr).s("root", rootname).s("dst_trace", hist_str(d.h)).s("src_trace", hist_str(s.h)).s("form", fname[form]).s("oracle", why)
								.s("dst_state", key_of(d.m)).s("src_state", key_of(s.m)).str());
					}
					if(mc::R.samples.size() < 4 && od.size() >= 4 && form == F_ASSIGN && (g_pairs % 211) == 0) {
						mc::R.sample(mc::J().s("root", rootname).s("dst_trace", hist_str(d.h)).s("src_trace", hist_str(s.h)).s("forms", "all " + std::to_string(static_cast<int>(NFORMS))).n("elements", static_cast<long long>(od.size())).str());
					}
				}
			}
		}
	next_group:;
	}
#ifdef VM_FANCY
	mc::R.add("fancy_dereferences", fancy::g.deref);
	if(fancy::g.oob_deref || fancy::g.null_deref || fancy::g.null_arith) { mc::R.violation("D" + std::to_string(D) + "|fancy-pointer|" + (fancy::g.oob_deref ? "dereference-outside-storage" : "null-pointer-use"), mc::J().s("root", rootname).s("replay", prefix).s("detail", fancy::g.first).str()); }
#endif
	mc::R.note(rootname + ": view states=" + std::to_string(saved.size()) + " extents classes=" + std::to_string(groups.size()) + " depth=" + std::to_string(cfg.maxdepth));
}

static bool form_must_not_allocate(int form) { return form == F_ASSIGN || form == F_ASSIGN_MOVED || form == F_ELEMENTS || form == F_ELEMENTS_MOVED || form == F_FILL || form == F_SWAP_MEMBER || form == F_SWAP_ADL || form == F_ASSIGN_RVALUE_DST || form == F_ELEMENT_MOVED; }

template<int D>
int replay_pair(std::vector<idx> const& sizes, Hist const& dh, Hist const& sh, int form) {
	idx N = 1; for(auto s : sizes) { N *= s; }
	vo::GuardBuffer<int> g1(N), g2(N);
	auto exts = vo::make_extensions<D>(sizes);
#ifdef VM_FANCY
	multi::array_ref<int, D, fancy::ptr<int>> r1(exts, fancy::make(g1.data(), N)), r2(exts, fancy::make(g2.data(), N));
#else
	multi::array_ref<int, D> r1(exts, g1.data()), r2(exts, g2.data());
#endif
	for(idx i = 0; i < N; ++i) { g1.data()[i] = static_cast<int>(1000 + i); g2.data()[i] = static_cast<int>(2000 + i); }
	MView dm = root_model(sizes), sm = root_model(sizes);
	for(auto const& o : dh) { m_apply(dm, o); } for(auto const& o : sh) { m_apply(sm, o); }
	auto od = offsets_of(dm), os = offsets_of(sm);
	std::vector<int> b1(g1.data(), g1.data() + N), b2(g2.data(), g2.data() + N);
	Expect ex = E_SKIP;
	walk(r1(), dh.data(), static_cast<int>(dh.size()), [&](auto&& dv) { walk(r2(), sh.data(), static_cast<int>(sh.size()), [&](auto&& sv) {
		using DV = std::decay_t<decltype(dv)>; using SV = std::decay_t<decltype(sv)>;
		if constexpr(rank_of<DV> == rank_of<SV> && !is_ro_v<DV>) { ex = do_form(form, dv, sv, dm); }
	}); });
	if(ex == E_SKIP) { std::printf("REPLAY form not applicable\n"); return 2; }
	std::vector<int> e1 = b1, e2 = b2;
	if(ex == E_COPY) { for(std::size_t k = 0; k < od.size(); ++k) { e1[static_cast<std::size_t>(od[k])] = b2[static_cast<std::size_t>(os[k])]; } }
	if(ex == E_SWAP) { for(std::size_t k = 0; k < od.size(); ++k) { e1[static_cast<std::size_t>(od[k])] = b2[static_cast<std::size_t>(os[k])]; e2[static_cast<std::size_t>(os[k])] = b1[static_cast<std::size_t>(od[k])]; } }
	if(ex == E_FILL) { std::size_t per = dm.d[0].size ? od.size()/static_cast<std::size_t>(dm.d[0].size) : 0; for(std::size_t k = 0; k < od.size(); ++k) { e1[static_cast<std::size_t>(od[k])] = b2[static_cast<std::size_t>(os[per ? k%per : 0])]; } }
	bool ok = std::equal(e1.begin(), e1.end(), g1.data()) && std::equal(e2.begin(), e2.end(), g2.data()) && g1.intact() && g2.intact();
	std::printf("dst buffer expected:"); for(auto x : e1) { std::printf(" %d", x); } std::printf("\ndst buffer observed:"); for(idx i = 0; i < N; ++i) { std::printf(" %d", g1.data()[i]); }
	std::printf("\nREPLAY %s form=%s\n", ok ? "OK" : "VIOLATION", fname[form]);
	return ok ? 0 : 1;
}

int main(int argc, char** argv) {
	mc::Args args(argc, argv);
	bool thorough = args.get("tier", "quick") == "thorough";
	Config cfg;
	cfg.maxdepth = static_cast<int>(args.geti("depth", 2));
	cfg.menu0.call_full = false; cfg.menu0.call_maxargs = 2; cfg.menu.call_full = false; cfg.menu.call_maxargs = 1;
	long cap = args.geti("cap", thorough ? 0 : 4000);
	g_report_alloc = args.get("prop", "") == "C09";   // C09 mode: report only the no-allocation clause
	long shard = args.geti("shard", 0), nshards = args.geti("nshards", 1);
	mc::set_deadline(static_cast<double>(args.geti("deadline", 3000)));
	if(args.has("replay")) {
		std::string r = args.get("replay"); std::vector<std::string> parts; { std::string cur; for(char c : r) { if(c == '/') { parts.push_back(cur); cur.clear(); } else { cur += c; } } parts.push_back(cur); }
		if(parts.size() != 4) { std::printf("REPLAY cannot parse\n"); return 2; }
		std::vector<idx> sizes; { std::string cur; for(char c : parts[0] + "x") { if(c == 'x') { sizes.push_back(std::atol(cur.c_str())); cur.clear(); } else { cur += c; } } }
		Hist dh = parse_hist(parts[1]), sh = parse_hist(parts[2]); int form = std::atoi(parts[3].c_str());
#ifdef ONLY_RANK
		if(sizes.size() == ONLY_RANK) { return replay_pair<ONLY_RANK>(sizes, dh, sh, form); }
#endif
		return 3;
	}
	return mc::supervise([&](std::set<std::string> const& skip) {
		long i = 0;
		for(auto const& sh : vr::shapes()) {
			if(sh.thorough_only && !thorough) { continue; }
#ifdef ONLY_RANK
			if(sh.s.size() != ONLY_RANK) { continue; }
			if((i++ % nshards) != shard) { continue; }
			run_pairs<ONLY_RANK>(sh.s, cfg, cap, skip);
#endif
		}
		mc::R.add("evaluations", g_runs); mc::R.add("pairs", g_pairs); mc::R.add("distinct_nontrivial", g_nontrivial); mc::R.add("groups_capped", g_capped_groups);
		mc::R.emit(stdout);
	});
}
