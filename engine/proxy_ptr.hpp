// A user-defined pointer whose reference type is a PROXY object (like thrust::device_reference): `*p` yields proxy::ref<T>, assignable (through a const
// operator=) only when T is not const.  Used by the C16 compile probes: const-ness must propagate through the library also when references are proxies.
#pragma once
#include <cstddef>
#include <iterator>
#include <type_traits>

namespace proxy {
template<class T> class ptr;
template<class T> class ref {
	T* p_;
	explicit ref(T* p) : p_{p} {}
	friend class ptr<T>;
	template<class> friend class ref;
 public:
	ref(ref const&) = default;
	template<class U, std::enable_if_t<std::is_same_v<U const, T>, int> = 0> ref(ref<U> const& o) : p_{o.p_} {}  // NOLINT ref<T> -> ref<T const>
	operator T const&() const { return *p_; }  // NOLINT
	template<class TT = T, std::enable_if_t<!std::is_const_v<TT>, int> = 0> auto operator=(T const& v) const -> ref const& { *p_ = v; return *this; }
	template<class TT = T, std::enable_if_t<!std::is_const_v<TT>, int> = 0> auto operator=(ref const& o) const -> ref const& { *p_ = *o.p_; return *this; }
	auto operator&() const -> ptr<T>;  // NOLINT
};
template<class T> class ptr {
	T* p_ = nullptr;
	template<class> friend class ptr;
 public:
	using difference_type = std::ptrdiff_t; using value_type = std::remove_cv_t<T>; using element_type = T; using pointer = ptr; using reference = ref<T>;
	using iterator_category = std::random_access_iterator_tag;
	template<class U> using rebind = ptr<U>;
	ptr() = default;
	ptr(std::nullptr_t) {}  // NOLINT
	explicit ptr(T* p) : p_{p} {}
	template<class U, std::enable_if_t<std::is_same_v<U const, T>, int> = 0> ptr(ptr<U> const& o) : p_{o.p_} {}  // NOLINT
	auto operator*() const -> reference { return reference{p_}; }
	auto operator[](difference_type n) const -> reference { return reference{p_ + n}; }
	auto operator+=(difference_type n) -> ptr& { p_ += n; return *this; }
	auto operator-=(difference_type n) -> ptr& { p_ -= n; return *this; }
	auto operator++() -> ptr& { ++p_; return *this; }
	auto operator--() -> ptr& { --p_; return *this; }
	friend auto operator+(ptr a, difference_type n) -> ptr { return a += n; }
	friend auto operator-(ptr a, difference_type n) -> ptr { return a -= n; }
	friend auto operator-(ptr const& a, ptr const& b) -> difference_type { return a.p_ - b.p_; }
	friend auto operator==(ptr const& a, ptr const& b) -> bool { return a.p_ == b.p_; }
	friend auto operator!=(ptr const& a, ptr const& b) -> bool { return a.p_ != b.p_; }
	friend auto operator<(ptr const& a, ptr const& b) -> bool { return a.p_ < b.p_; }
	explicit operator bool() const { return p_ != nullptr; }
};
template<class T> auto ref<T>::operator&() const -> ptr<T> { return ptr<T>{p_}; }
}  // namespace proxy
