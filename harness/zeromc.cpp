// C04/C08 for dimensionality 0: history BFS over a pool of two zero-dimensional owning arrays (one element each) with tracked elements and the ledger allocator.
#include "../engine/hist_model.hpp"

using namespace hm;
using T = instr::E;
using Alloc = instr::LA<T>;
using Arr0 = multi::array<T, 0, Alloc>;
using Sta0 = multi::static_array<T, 0, Alloc>;

struct Pool { std::unique_ptr<Arr0> a, b; std::unique_ptr<Sta0> s; };
struct M { int a, b, s; };
static std::string key(M const& m) { return std::to_string(m.a) + "," + std::to_string(m.b) + "," + std::to_string(m.s); }
struct Op0 { std::string name; std::function<void(M&)> model; std::function<void(Pool&)> real; bool no_alloc; };
static std::vector<Op0> g_ops;

static void build() {
	auto add = [](Op0 o) { g_ops.push_back(std::move(o)); };
	add({"a=b", [](M& m) { m.a = m.b; }, [](Pool& p) { *p.a = *p.b; }, true});
	add({"b=a", [](M& m) { m.b = m.a; }, [](Pool& p) { *p.b = *p.a; }, true});
	add({"a=a", [](M&) {}, [](Pool& p) { auto& r = *p.a; *p.a = r; }, true});
	add({"swap(a,b)", [](M& m) { std::swap(m.a, m.b); }, [](Pool& p) { using std::swap; swap(*p.a, *p.b); }, true});
	add({"a=Arr0(b)", [](M& m) { m.a = m.b; }, [](Pool& p) { p.a = std::make_unique<Arr0>(*p.b); }, false});
	add({"a=Arr0(7)", [](M& m) { m.a = 7; }, [](Pool& p) { p.a = std::make_unique<Arr0>(T(7)); }, false});
	add({"b=Arr0(8,alloc)", [](M& m) { m.b = 8; }, [](Pool& p) { p.b = std::make_unique<Arr0>(T(8), Alloc{}); }, false});
	add({"a=element 9", [](M& m) { m.a = 9; }, [](Pool& p) { *p.a = T(9); }, true});
	add({"element-of-b=11", [](M& m) { m.b = 11; }, [](Pool& p) { static_cast<T&>(*p.b) = T(11); }, true});
	add({"s=static_array0(a)", [](M& m) { m.s = m.a; }, [](Pool& p) { p.s = std::make_unique<Sta0>(*p.a); }, false});
	add({"s=b (static_array = array)", [](M& m) { m.s = m.b; }, [](Pool& p) { *p.s = *p.b; }, true});
	add({"a=s", [](M& m) { m.a = m.s; }, [](Pool& p) { *p.a = *p.s; }, true});
	add({"a=+b", [](M& m) { m.a = m.b; }, [](Pool& p) { *p.a = +*p.b; }, false});
}

static Outcome run(std::vector<int> const& h, int op, M const& after) {
	Outcome out; W.reset();
	{
		Pool p; p.a = std::make_unique<Arr0>(T(1)); p.b = std::make_unique<Arr0>(T(2)); p.s = std::make_unique<Sta0>(T(3));
		for(int x : h) { g_ops[static_cast<std::size_t>(x)].real(p); }
		long al = W.nalloc;
		g_ops[static_cast<std::size_t>(op)].real(p);
		auto fail = [&](std::string o, std::string d) { if(out.ok) { out.ok = false; out.oracle = std::move(o); out.detail = std::move(d); } };
		if(!W.errs.empty()) { fail("registry:" + W.errs[0], ""); }
		int va = instr::val(static_cast<T const&>(*p.a)), vb = instr::val(static_cast<T const&>(*p.b)), vs = instr::val(static_cast<T const&>(*p.s));
		if(va != after.a || vb != after.b || vs != after.s) { fail("value", "a,b,s = " + std::to_string(va) + "," + std::to_string(vb) + "," + std::to_string(vs) + " model " + key(after)); }
		if(p.a->num_elements() != 1 || p.b->num_elements() != 1) { fail("num_elements", "a zero-dimensional array must have exactly one element"); }
		if(rawp(p.a->data_elements()) == rawp(p.b->data_elements())) { fail("shared-storage", "a and b share their element"); }
		if(g_ops[static_cast<std::size_t>(op)].no_alloc && W.nalloc != al) { fail("allocated", "assignment of a zero-dimensional array allocated"); }
	}
	if(out.ok) { if(!W.errs.empty()) { out.ok = false; out.oracle = "registry-at-destruction:" + W.errs[0]; } else if(!W.blocks.empty()) { out.ok = false; out.oracle = "leak-block"; } else if(!W.alive.empty()) { out.ok = false; out.oracle = "leak-element"; } }
	return out;
}

int main(int argc, char** argv) {
	mc::Args args(argc, argv);
	int maxdepth = static_cast<int>(args.geti("depth", args.get("tier", "quick") == "thorough" ? 5 : 4));
	std::string prop = args.get("prop", "all");
	build();
	struct St { std::vector<int> h; M m; };
	std::deque<St> fr; std::unordered_set<std::string> seen; fr.push_back(St{{}, M{1, 2, 3}}); seen.insert(key(M{1, 2, 3}));
	long states = 1, transitions = 0, changed = 0;
	auto hs = [&](std::vector<int> const& h) { std::string s; for(std::size_t i = 0; i < h.size(); ++i) { s += (i ? " ; " : "") + g_ops[static_cast<std::size_t>(h[i])].name; } return s; };
	if(args.has("replay")) { std::vector<int> h; std::string cur; for(char c : args.get("replay") + ",") { if(c == ',') { if(!cur.empty()) { h.push_back(std::atoi(cur.c_str())); } cur.clear(); } else { cur += c; } }
		int op = h.back(); h.pop_back(); M m{1, 2, 3}; for(int x : h) { g_ops[static_cast<std::size_t>(x)].model(m); } g_ops[static_cast<std::size_t>(op)].model(m); Outcome o = run(h, op, m); std::printf("REPLAY %s %s %s\n", o.ok ? "OK" : "VIOLATION", o.oracle.c_str(), o.detail.c_str()); return o.ok ? 0 : 1; }
	while(!fr.empty()) {
		St st = std::move(fr.front()); fr.pop_front();
		if(static_cast<int>(st.h.size()) >= maxdepth) { continue; }
		std::vector<M> ms; for(auto const& o : g_ops) { M m2 = st.m; o.model(m2); ms.push_back(m2); }
		auto outs = isolated(static_cast<int>(g_ops.size()), [&](int i) { return run(st.h, i, ms[static_cast<std::size_t>(i)]); });
		for(std::size_t i = 0; i < g_ops.size(); ++i) {
			++transitions; if(key(ms[i]) != key(st.m)) { ++changed; }
			auto h2 = st.h; h2.push_back(static_cast<int>(i));
			if(!outs[i].ok) {
				bool monitor = outs[i].oracle.rfind("registry", 0) == 0 || outs[i].oracle.rfind("leak", 0) == 0;
				std::string owner = monitor ? "C08" : (outs[i].oracle == "allocated" ? "C09" : "C04");
				if(prop == "all" || prop == owner) {
					std::string ids; for(std::size_t q = 0; q < h2.size(); ++q) { ids += (q ? "," : "") + std::to_string(h2[q]); }
					mc::R.violation("D0|tracked|" + g_ops[i].name + "|" + outs[i].oracle.substr(0, outs[i].oracle.find('(')), mc::J().s("harness", "zeromc").s("replay", ids).s("history", hs(st.h)).s("op", g_ops[i].name).s("oracle", outs[i].oracle).s("detail", outs[i].detail).str());
				}
				continue;
			}
			if(seen.insert(key(ms[i])).second) { ++states; if(mc::R.samples.size() < 2 && h2.size() == 3) { mc::R.sample(mc::J().s("config", "zeromc D=0").s("history", hs(h2)).s("model_state", key(ms[i])).str()); } fr.push_back(St{h2, ms[i]}); }
		}
	}
	mc::R.add("states", states); mc::R.add("transitions", transitions); mc::R.add("distinct_nontrivial", changed);
	mc::R.note("zeromc D=0: alphabet=" + std::to_string(g_ops.size()) + " completed_depth=" + std::to_string(maxdepth) + " states=" + std::to_string(states) + " transitions=" + std::to_string(transitions));
	mc::R.emit(stdout);
	return 0;
}
