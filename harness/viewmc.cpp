// C01 — view algebra.  BFS over view states from a set of roots; per-state oracle: shape queries and the address of every
// valid index tuple via four access paths against the affine reference model.
#include "../engine/view_model.hpp"
#include "../engine/view_oracle.hpp"

using namespace vm;

template<int D, class Root>
static void run_root(Root& root, int const* data, idx N, std::vector<idx> const& sizes, std::string const& rootname, std::string const& prefix, Config const& cfg, std::set<std::string> const& skip) {
	MView m0 = root_model(sizes);
	long nontrivial = 0, st_count = 0;
	std::string rootclass = "D" + std::to_string(D);
	auto st = bfs(root, m0, cfg, skip, [&](auto&& v, MView const& m, Hist const& h) -> bool {
		mc::cur_phase("oracle");
		vo::Fail f = vo::check_view(v, m, data, N);
		if(!m.has_empty_dim() && m.num_elements() >= 2) { ++nontrivial; }
		mc::R.outcome(key_of(m));
		if(h.size() >= 2 && m.num_elements() >= 2 && N >= 6 && mc::R.samples.size() < 3 && (st_count++ % 97) == 0) {
			mc::R.sample(mc::J().s("root", rootname).s("trace", hist_str(h)).s("model_state", key_of(m)).n("index_tuples_checked", static_cast<long long>(m.has_empty_dim() ? 0 : m.num_elements())).str());
		}
		if(f.bad) {
			std::string lastop = h.empty() ? "root" : op_class(h.back());
			mc::R.violation(rootclass + "|" + lastop + "|" + f.oracle,
				mc::J().s("harness", "viewmc").s("replay", prefix + hist_str(h)).s("root", rootname).s("trace", hist_str(h)).s("oracle", f.oracle).s("detail", f.detail).s("model_state", key_of(m)).str());
			return false;
		}
		return true;
	}, prefix);
	mc::R.add("states", st.states); mc::R.add("transitions", st.transitions); mc::R.add("distinct_nontrivial", nontrivial);
	mc::R.add("index_tuples_checked", vo::g_tuples); vo::g_tuples = 0;
	mc::R.add("address_comparisons", vo::g_addr); vo::g_addr = 0;
	if(st.capped) { mc::R.exhaustive = false; }
	mc::R.note(rootname + ": completed_depth=" + std::to_string(st.completed_depth) + " states=" + std::to_string(st.states) + " transitions=" + std::to_string(st.transitions) + (st.capped ? " CAPPED" : ""));
}

template<int D>
static void run_shape(std::vector<idx> const& sizes, bool owning, Config const& cfg, std::set<std::string> const& skip) {
	idx N = 1; for(auto s : sizes) { N *= s; }
	std::string name = (owning ? "array<int," : "array_ref<int,") + std::to_string(D) + ">{";
	for(std::size_t i = 0; i < sizes.size(); ++i) { name += (i ? "," : ""); name += std::to_string(sizes[i]); }
	name += "}";
	auto exts = vo::make_extensions<D>(sizes);
	std::string prefix;
	for(std::size_t i = 0; i < sizes.size(); ++i) { prefix += (i ? "x" : ""); prefix += std::to_string(sizes[i]); }
	prefix += owning ? "/o/" : "/r/";
	if(owning) {
		multi::array<int, D> a(exts);
		run_root<D>(a, a.data_elements(), N, sizes, name, prefix, cfg, skip);
	} else {
		vo::GuardBuffer<int> g(N);
		multi::array_ref<int, D> a(exts, g.data());
		run_root<D>(a, g.data(), N, sizes, name, prefix, cfg, skip);
		if(!g.intact()) { mc::R.violation("D" + std::to_string(D) + "|guard", mc::J().s("root", name).s("detail", "guard elements modified").str()); }
	}
}

struct Shape { std::vector<idx> s; bool thorough_only; };
static std::vector<Shape> const shapes = {
	{{0}, false}, {{1}, false}, {{2}, false}, {{3}, false}, {{4}, false}, {{6}, false}, {{5}, true}, {{8}, true},
	{{2, 3}, false}, {{3, 2}, false}, {{4, 2}, false}, {{1, 3}, false}, {{3, 1}, false}, {{1, 1}, false}, {{0, 3}, false}, {{2, 0}, false},
	{{3, 4}, true}, {{4, 3}, true}, {{2, 6}, true}, {{6, 2}, true}, {{4, 4}, true},
	{{2, 3, 2}, false}, {{1, 2, 3}, false}, {{3, 1, 2}, false}, {{2, 0, 2}, false},
	{{2, 2, 3}, true}, {{2, 3, 4}, true}, {{4, 2, 2}, true}, {{3, 3, 3}, true},
	{{2, 1, 2, 3}, false}, {{2, 2, 2, 2}, true}, {{1, 2, 3, 2}, true}, {{3, 2, 1, 2}, true},
};

static void dispatch(Shape const& sh, bool owning, Config const& cfg, std::set<std::string> const& skip) {
#ifdef ONLY_RANK
	if(sh.s.size() == ONLY_RANK) { run_shape<ONLY_RANK>(sh.s, owning, cfg, skip); }
#else
	switch(sh.s.size()) {
		case 1: run_shape<1>(sh.s, owning, cfg, skip); break;
		case 2: run_shape<2>(sh.s, owning, cfg, skip); break;
		case 3: run_shape<3>(sh.s, owning, cfg, skip); break;
		case 4: run_shape<4>(sh.s, owning, cfg, skip); break;
		default: break;
	}
#endif
}

int main(int argc, char** argv) {
	mc::Args args(argc, argv);
	bool thorough = args.get("tier", "quick") == "thorough";
	Config cfg;
	cfg.maxdepth = static_cast<int>(args.geti("depth", thorough ? 5 : 3));
	cfg.max_states = args.geti("max_states", 3000000);
	cfg.menu0.call_full = true; cfg.menu0.call_maxargs = 3;
	cfg.menu.call_full = false; cfg.menu.call_maxargs = 2;
	cfg.full_call_depth = 1;
	long shard = args.geti("shard", 0), nshards = args.geti("nshards", 1);
	mc::set_deadline(static_cast<double>(args.geti("deadline", 3000)));

	if(args.has("replay")) {  // --replay='<root sizes e.g. 2x3>/<o|r>/<trace>'
		std::string r = args.get("replay");
		auto p1 = r.find('/'), p2 = r.find('/', p1 + 1);
		std::string ss = r.substr(0, p1), own = r.substr(p1 + 1, p2 - p1 - 1), tr = r.substr(p2 + 1);
		Shape sh; { std::string cur; for(char c : ss + "x") { if(c == 'x') { sh.s.push_back(std::atol(cur.c_str())); cur.clear(); } else { cur += c; } } }
		Hist h = parse_hist(tr);
		return vo::replay_one(sh.s, own == "o", h);
	}

	return mc::supervise([&](std::set<std::string> const& skip) {
		long i = 0;
		for(auto const& sh : shapes) {
			if(sh.thorough_only && !thorough) { continue; }
			for(int owning = 0; owning < 2; ++owning) {
				idx N = 1; for(auto s : sh.s) { N *= s; }
				if(owning && N == 0) { continue; }  // empty owning arrays have a null base: non-zero-offset slicing is UB there (DESIGN §3)
				if((i++ % nshards) != shard) { continue; }
				dispatch(sh, owning != 0, cfg, skip);
			}
		}
		mc::R.emit(stdout);
	});
}
