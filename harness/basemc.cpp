// C19 — index bases are transparent.  E1 search from RE-BASED roots (arrays built from explicit index extensions, reindexed/blocked/stenciled views):
// every index-valued argument is expressed in the view's own reported index space, the model is positional (a shifted zero-based twin), and at every
// state: element addresses position-wise (C01 oracle), iterator/elements() laws (C02), +view, assignment, == against the twin semantics.
#define VM_REBASE_OPS 1
#define VM_CALL_MAXARGS 4
#define VM_CATEGORIES 1
#include "../engine/iter_laws.hpp"

using namespace vm;

static long g_extra = 0;

template<class V> void collect_vals(V const& v, std::vector<int>& out) {
	for(auto i = v.extension().first(); i != v.extension().last(); ++i) { if constexpr(rank_of<V> == 1) { out.push_back(v[i]); } else { collect_vals(v[i], out); } }
}

template<int D, class Root>
static void run_root(Root& root, int const* data, idx N, std::vector<idx> const& sizes, std::vector<idx> const& firsts, std::string const& rootname, std::string const& prefix, Config const& cfg, std::set<std::string> const& skip, Root& twin_root, int* twin_data) {
	MView m0 = root_model(sizes, firsts);
	long nontrivial = 0, cnt = 0;
	std::string rc = "D" + std::to_string(D);
	auto report = [&](MView const& m, Hist const& h, std::string const& oracle, std::string const& detail) {
		std::string lastop = h.empty() ? "root" : op_class(h.back());
		mc::R.violation(rc + "|" + lastop + "|" + oracle, mc::J().s("harness", "basemc").s("replay", prefix + hist_str(h)).s("root", rootname).s("trace", hist_str(h)).s("oracle", oracle).s("detail", detail).s("model_state", key_of(m)).str());
	};
	auto st = bfs(root, m0, cfg, skip, [&](auto&& v, MView const& m, Hist const& h) -> bool {
		mc::cur_phase("addresses");
		vo::Opt opt; opt.check_first = h.empty();  // the root's own index bases ARE specified (constructed from explicit extensions)
		vo::Fail f = vo::check_view(v, m, data, N, opt);
		if(!m.has_empty_dim() && m.num_elements() >= 2) { ++nontrivial; }
		mc::R.outcome(key_of(m));
		if(f.bad) { report(m, h, f.oracle, f.detail); return false; }
		// the index bases produced by reindexed / blocked / stenciled ARE specified by their arguments (m carries the REPORTED bases of non-empty dimensions)
		if(!h.empty()) {
			Op const& o = h.back(); std::vector<idx> want;
			if(o.k == REINDEXED || o.k == BLOCKED || o.k == STENCILED) { want = {o.a}; }
			if(o.k == REINDEXEDN) { want = {o.a, o.b}; if(o.nargs >= 3) { want.push_back(o.c); } if(o.nargs >= 4) { want.push_back(o.d); } }
			if(o.k == STENCILEDN) { for(int j = 0; j < o.nargs; ++j) { want.push_back(o.args[j].a); } }
			for(std::size_t j = 0; j < want.size() && j < m.d.size(); ++j) {
				if(m.d[j].size > 0 && m.d[j].first != want[j]) { report(m, h, "index-base", "dimension " + std::to_string(j) + " starts at " + std::to_string(m.d[j].first) + " after " + op_str(o) + ", expected " + std::to_string(want[j])); return false; }
			}
		}
		mc::cur_phase("iterators");
		auto bad = il::check_iters(v, m, data);
		if(!bad.empty()) { report(m, h, "iteration:" + bad[0].fam + ":" + bad[0].law, bad[0].detail); return false; }
		if(!m.has_empty_dim()) {
			// expected values in canonical (positional) order
			std::vector<int> expect; for_each_index(m, [&](std::vector<idx> const&, idx off) { expect.push_back(data[off]); });
			mc::cur_phase("decay"); ++g_extra;
			{
				auto c = +v; std::vector<int> got; collect_vals(c, got);
				if(got != expect) { report(m, h, "decay-values", "+view does not hold the viewed elements in order"); return false; }
				if(!(c.extensions() == v.extensions())) { report(m, h, "decay-extensions", "+view does not have the view's extensions"); return false; }
				mc::cur_phase("equality"); ++g_extra;
				if(!(c == v) || (c != v)) { report(m, h, "equality", "a copy of the re-based view does not compare equal to it"); return false; }
				if(expect.size() >= 1) { c.data_elements()[c.num_elements() - 1] += 1; if(c == v) { report(m, h, "equality", "a copy with one element changed compares equal"); return false; } }
			}
			// assignment to the same view of the twin root (values 2000+pos), and from it
			mc::cur_phase("assignment"); ++g_extra;
			if constexpr(!is_ro_v<decltype(v)>) {
				for(idx i = 0; i < N; ++i) { twin_data[i] = static_cast<int>(2000 + i); }
				std::vector<int> before(twin_data, twin_data + N);
				bool done = false;
				walk(twin_root(), h.data(), static_cast<int>(h.size()), [&](auto&& tv) {
					if constexpr(rank_of<decltype(tv)> == rank_of<decltype(v)> && !is_ro_v<decltype(tv)>) { tv = v; done = true; }
				});
				if(done) {
					std::vector<int> e(before); std::size_t k = 0; for_each_index(m, [&](std::vector<idx> const&, idx off) { e[static_cast<std::size_t>(off)] = expect[k++]; });
					if(!std::equal(e.begin(), e.end(), twin_data)) { report(m, h, "assignment", "view = re-based view of equal extents did not copy exactly the viewed elements position-wise"); return false; }
				}
			}
		}
		if(h.size() >= 1 && m.num_elements() >= 3 && mc::R.samples.size() < 3 && (cnt++ % 41) == 0) { mc::R.sample(mc::J().s("root", rootname).s("trace", hist_str(h)).s("model_state", key_of(m)).str()); }
		return true;
	}, prefix);
	mc::R.add("states", st.states); mc::R.add("transitions", st.transitions); mc::R.add("distinct_nontrivial", nontrivial);
	mc::R.add("index_tuples_checked", vo::g_tuples); vo::g_tuples = 0; mc::R.add("law_instances_checked", il::g_laws); il::g_laws = 0; mc::R.add("copy_assign_equality_probes", g_extra); g_extra = 0;
	if(st.capped) { mc::R.exhaustive = false; }
	mc::R.note(rootname + ": completed_depth=" + std::to_string(st.completed_depth) + " states=" + std::to_string(st.states) + " transitions=" + std::to_string(st.transitions) + (st.capped ? " CAPPED" : ""));
}

// ---- reextent on re-based arrays: ALL ordered pairs (old, new) of index extensions from a menu; index-space intersection model
template<int D> static void reextent_grid() {
	std::vector<std::pair<idx, idx>> menu1 = {{0, 0}, {0, 2}, {-1, 1}, {-1, 2}, {2, 4}, {1, 4}, {0, 3}};   // [first,last) per dimension
	std::vector<std::vector<std::pair<idx, idx>>> exts;
	if(D == 1) { for(auto a : menu1) { exts.push_back({a}); } }
	else { std::vector<std::pair<idx, idx>> m2 = {{0, 2}, {-1, 1}, {2, 4}, {1, 4}, {0, 0}}; for(auto a : m2) { for(auto b : m2) { exts.push_back({a, b}); } } }
	long n = 0, nt = 0;
	auto mk = [](std::vector<std::pair<idx, idx>> const& e) { std::vector<idx> f, s; for(auto p : e) { f.push_back(p.first); s.push_back(p.second - p.first); } return vo::make_extensions<D>(f, s); };
	auto str = [](std::vector<std::pair<idx, idx>> const& e) { std::string r; for(auto p : e) { r += "[" + std::to_string(p.first) + "," + std::to_string(p.second) + ")"; } return r; };
	for(auto const& o : exts) { for(auto const& nw : exts) { for(int withv = 0; withv < 2; ++withv) {
		++n;
		mc::cur_set("reextent-rebased", "reextent:" + str(o) + "->" + str(nw));
		multi::array<int, D> a(mk(o));
		// value = code of the index tuple
		auto code = [](idx i, idx j) { return static_cast<int>(100*(i + 5) + (j + 5)); };
		if constexpr(D == 1) { for(idx i = o[0].first; i < o[0].second; ++i) { a[i] = code(i, 0); } }
		else { if((o[0].second - o[0].first)*(o[1].second - o[1].first) > 0) { for(idx i = o[0].first; i < o[0].second; ++i) { for(idx j = o[1].first; j < o[1].second; ++j) { a[i][j] = code(i, j); } } } }
		bool oldempty = a.num_elements() == 0;
		if(withv) { a.reextent(mk(nw), -7); } else { a.reextent(mk(nw)); }
		std::string why;
		idx cnt = 1; for(auto p : nw) { cnt *= (p.second - p.first); }
		if(a.num_elements() != cnt) { why = "num_elements"; }
		else if(cnt > 0) {
			if(!(a.extensions() == mk(nw))) { why = "extensions"; }
			else {
				++nt;
				auto inold = [&](idx i, idx j) { if(oldempty) { return false; } bool in = i >= o[0].first && i < o[0].second; if(D == 2) { in = in && j >= o[1].first && j < o[1].second; } return in; };
				if constexpr(D == 1) { for(idx i = nw[0].first; i < nw[0].second && why.empty(); ++i) { if(inold(i, 0)) { if(a[i] != code(i, 0)) { why = "common-element-lost at " + std::to_string(i); } } else if(withv && a[i] != -7) { why = "new-element-not-filled at " + std::to_string(i); } } }
				else { for(idx i = nw[0].first; i < nw[0].second && why.empty(); ++i) { for(idx j = nw[1].first; j < nw[1].second && why.empty(); ++j) { if(inold(i, j)) { if(a[i][j] != code(i, j)) { why = "common-element-lost at (" + std::to_string(i) + "," + std::to_string(j) + ")"; } } else if(withv && a[i][j] != -7) { why = "new-element-not-filled"; } } } }
			}
		}
		if(!why.empty()) { mc::R.violation("D" + std::to_string(D) + "|reextent-rebased|" + why.substr(0, why.find(" at")), mc::J().s("harness", "basemc").s("replay", "reextent:" + str(o) + "->" + str(nw)).s("old_extensions", str(o)).s("new_extensions", str(nw)).s("fill", withv ? "-7" : "none").s("detail", why).str()); }
	} } }
	mc::R.add("reextent_pairs", n); mc::R.add("transitions", n); mc::R.add("states", static_cast<long long>(exts.size()));
	mc::R.note("reextent on re-based arrays D=" + std::to_string(D) + ": " + std::to_string(exts.size()) + " index extensions, all " + std::to_string(n) + " (old,new,fill) triples, " + std::to_string(nt) + " non-empty results");
}

struct RootSpec { std::vector<idx> sizes, firsts; bool thorough_only; };
static std::vector<RootSpec> roots() {
	std::vector<RootSpec> r;
	for(idx f : {idx{-1}, idx{2}, idx{0}}) { r.push_back({{4}, {f}, f == 0}); r.push_back({{6}, {f}, true}); }
	for(idx f0 : {idx{-1}, idx{0}, idx{2}}) { for(idx f1 : {idx{-1}, idx{0}, idx{2}}) { if(f0 == 0 && f1 == 0) { continue; } r.push_back({{2, 3}, {f0, f1}, !(f0 == f1 || f0 == 0 || f1 == 0) && !(f0 == -1 && f1 == 2)}); } }
	r.push_back({{3, 2}, {1, -2}, false}); r.push_back({{4, 2}, {2, 2}, true});
	r.push_back({{2, 3, 2}, {1, 0, -1}, false}); r.push_back({{2, 2, 3}, {-1, 2, 1}, true}); r.push_back({{1, 2, 3}, {2, 2, 2}, true});
	r.push_back({{2, 1, 2, 3}, {1, -1, 0, 2}, false}); r.push_back({{2, 2, 3, 2}, {-1, 2, 0, 1}, true});
	return r;
}

template<int D> void run_spec(RootSpec const& rs, Config const& cfg, std::set<std::string> const& skip) {
	idx N = 1; for(auto s : rs.sizes) { N *= s; }
	std::string name = "array_ref<int," + std::to_string(D) + "> over index extensions";
	std::string prefix;
	for(std::size_t i = 0; i < rs.sizes.size(); ++i) { name += (i ? "x[" : " [") + std::to_string(rs.firsts[i]) + "," + std::to_string(rs.firsts[i] + rs.sizes[i]) + ")"; prefix += (i ? "x" : "") + std::to_string(rs.firsts[i]) + ":" + std::to_string(rs.sizes[i]); }
	prefix += "/";
	vo::GuardBuffer<int> g(N), g2(N);
	for(idx i = 0; i < N; ++i) { g.data()[i] = static_cast<int>(1000 + i); }
	auto exts = vo::make_extensions<D>(rs.firsts, rs.sizes);
	multi::array_ref<int, D> a(exts, g.data()), t(exts, g2.data());
	run_root<D>(a, g.data(), N, rs.sizes, rs.firsts, name, prefix, cfg, skip, t, g2.data());
	if(!g.intact() || !g2.intact()) { mc::R.violation("D" + std::to_string(D) + "|guard", mc::J().s("root", name).s("detail", "guard elements modified").str()); }
}

int main(int argc, char** argv) {
	mc::Args args(argc, argv);
	bool thorough = args.get("tier", "quick") == "thorough";
	Config cfg; cfg.maxdepth = static_cast<int>(args.geti("depth", thorough ? 3 : 2)); cfg.adopt_firsts = true;
	cfg.menu0.call_full = true; cfg.menu0.call_maxargs = 4; cfg.menu0.rebase_ops = true;
	cfg.menu.call_full = false; cfg.menu.call_maxargs = 2; cfg.menu.rebase_ops = true;
	long shard = args.geti("shard", 0), nshards = args.geti("nshards", 1);
	mc::set_deadline(static_cast<double>(args.geti("deadline", 3000)));
	std::string only = args.get("replay", "");
	auto body = [&](std::set<std::string> const& skip) {
		long i = 0;
#ifdef ONLY_RANK
		if constexpr(ONLY_RANK <= 2) { if(shard == 0) { reextent_grid<ONLY_RANK>(); } }
#endif
		for(auto const& rs : roots()) {
			if(rs.thorough_only && !thorough) { continue; }
#ifdef ONLY_RANK
			if(rs.sizes.size() != ONLY_RANK) { continue; }
			if((i++ % nshards) != shard) { continue; }
			run_spec<ONLY_RANK>(rs, cfg, skip);
#endif
		}
		mc::R.emit(stdout);
	};
	if(!only.empty()) {   // replay: re-run the search of the trace's root up to the trace's depth and report what is found at exactly that trace
		auto sl = only.find('/'); std::string rootp = only.substr(0, sl + 1); Hist h = parse_hist(only.substr(sl + 1));
		cfg.maxdepth = static_cast<int>(h.size()); std::set<std::string> none; int rc = 0;
		for(auto const& rs : roots()) {
			std::string prefix; for(std::size_t i = 0; i < rs.sizes.size(); ++i) { prefix += (i ? "x" : "") + std::to_string(rs.firsts[i]) + ":" + std::to_string(rs.sizes[i]); } prefix += "/";
			if(prefix != rootp) { continue; }
#ifdef ONLY_RANK
			if(rs.sizes.size() == ONLY_RANK) { run_spec<ONLY_RANK>(rs, cfg, none); }
#endif
		}
		for(auto const& [k, v] : mc::R.viol) { if(v.second.find("\"replay\":\"" + only + "\"") != std::string::npos) { std::printf("REPLAY VIOLATION %s %s\n", k.c_str(), v.second.substr(0, 500).c_str()); rc = 1; } }
		if(rc == 0) { std::printf("REPLAY OK (no violation at this trace)\n"); }
		return rc;
	}
	return mc::supervise(body);
}
