// C14 — LAPACK adaptor (E4 configuration grid): potrf / geqrf / gesvd (and syev behind LAPACKMC_HAVE_SYEV).
// Complete enumeration of  operation form x element type x layout of every operand x size vector x integer data family;
// every configuration is executed in a forked child of this assertion-enabled ASan build and classified as
//   correct | rejected (C++ exception, or SIGABRT by an assertion located in include/boost/multi) | VIOLATION (everything else).
// Oracles are naive references written here (known exact Cholesky factor; Householder reconstruction; U*S*VT product),
// applied to the logical contents read through A[i][j]; all operands live in guarded stores.
#include "../engine/mc_common.hpp"

#include <boost/multi/array.hpp>
#include <boost/multi/utility.hpp>
#include <boost/multi/adaptors/blas/core.hpp>
#include <boost/multi/adaptors/blas/operations.hpp>
// VEHICLE WORKAROUND (api gap, reported in the notes): lapack/geqrf.hpp says `using blas::filling;` inside namespace lapack while
// lapack/potrf.hpp defines its own `lapack::filling`; the two headers cannot be included in one translation unit.  The harness never
// names blas::filling, so the blas enum is given another name while geqrf.hpp (and blas/filling.hpp, first included from it) is read.
#define LAPACKMC_BLAS_FILLING lapackmc_blas_filling
#define filling LAPACKMC_BLAS_FILLING
#include <boost/multi/adaptors/lapack/geqrf.hpp>
#ifdef LAPACKMC_HAVE_SYEV
#include <boost/multi/adaptors/lapack/syev.hpp>
#endif
#undef filling
#include <boost/multi/adaptors/lapack/gesvd.hpp>
#include <boost/multi/adaptors/lapack/potrf.hpp>

#include <array>
#include <csetjmp>
#include <cmath>
#include <complex>
#include <limits>
#include <tuple>
#include <type_traits>

namespace multi = boost::multi;
using idx = multi::index;

// ---------------------------------------------------------------- scalars
template<class T> struct is_cx : std::false_type {};
template<class R> struct is_cx<std::complex<R>> : std::true_type {};
template<class T> struct real_of { using type = T; };
template<class R> struct real_of<std::complex<R>> { using type = R; };
template<class T> T mk(double re, double im = 0.0) {
	using R = typename real_of<T>::type;
	if constexpr(is_cx<T>::value) { return T(static_cast<R>(re), static_cast<R>(im)); } else { (void)im; return static_cast<T>(re); }
}
template<class T> T cj(T x) { if constexpr(is_cx<T>::value) { return std::conj(x); } else { return x; } }
template<class T> double mag(T x) { return static_cast<double>(std::abs(x)); }
template<class T> std::string num(T x) {
	std::ostringstream o; o.precision(17);
	if constexpr(is_cx<T>::value) { o << "(" << x.real() << "," << x.imag() << ")"; } else { o << x; }
	return o.str();
}
template<class T> double eps_of() { return static_cast<double>(std::numeric_limits<typename real_of<T>::type>::epsilon()); }
template<class T> T guard_of() { return mk<T>(-999.0, -998.0); }   // padding / guard elements of every store
template<class T> T other_of() { return mk<T>(555.0, 554.0); }     // the triangle potrf must not reference
template<class T> T fresh_of() { return mk<T>(333.0, 332.0); }     // initial contents of pure outputs (an untouched output is then visible)
template<class T> bool same(T a, T b) { return a == b; }           // exact (sentinels)

// logical matrix (row-major) used by the references
template<class T> struct LM {
	idx r = 0, c = 0; std::vector<T> v;
	LM() = default;
	LM(idx r_, idx c_, T x = T{}) : r(r_), c(c_), v(static_cast<std::size_t>(r_ * c_), x) {}
	T& operator()(idx i, idx j) { return v[static_cast<std::size_t>(i * c + j)]; }
	T const& operator()(idx i, idx j) const { return v[static_cast<std::size_t>(i * c + j)]; }
};
template<class T> std::string lm_str(LM<T> const& a) {
	std::string s = "[";
	for(idx i = 0; i < a.r; ++i) { s += (i ? ",[" : "["); for(idx j = 0; j < a.c; ++j) { s += (j ? "," : ""); s += num(a(i, j)); } s += "]"; }
	return s + "]";
}
template<class T> LM<T> transposed(LM<T> const& a) { LM<T> t(a.c, a.r); for(idx i = 0; i < a.r; ++i) { for(idx j = 0; j < a.c; ++j) { t(j, i) = a(i, j); } } return t; }
template<class T> double norm_inf(LM<T> const& a) { double m = 0; for(idx i = 0; i < a.r; ++i) { double s = 0; for(idx j = 0; j < a.c; ++j) { s += mag(a(i, j)); } m = std::max(m, s); } return m; }
template<class T> double max_abs(LM<T> const& a) { double m = 0; for(auto const& x : a.v) { m = std::max(m, mag(x)); } return m; }

// ---------------------------------------------------------------- operands in guarded stores
enum { L_ARRAY, L_ROWC, L_ROWP, L_COLC, L_COLP, L_CSTR, NLAY2 };
static char const* const lay2_name[] = {"owning-array", "rowmajor-contiguous", "rowmajor-padded-block", "colmajor-contiguous", "colmajor-padded-block", "rowmajor-column-stride-2"};
static char const* const lay2_tok[] = {"arr", "rc", "rp", "cc", "cp", "cs2"};

template<class T> struct Mat2 {   // an r x c logical matrix placed in a larger store according to `lay`
	int lay; idx r, c; multi::array<T, 2> st;
	static idx srows(int l, idx r, idx c) { switch(l) { case L_ARRAY: return r; case L_COLC: case L_COLP: return c + 2; default: return r + 2; } }
	static idx scols(int l, idx r, idx c) { switch(l) { case L_ARRAY: case L_ROWC: return c; case L_ROWP: return c + 3; case L_COLC: return r; case L_COLP: return r + 3; default: return 2 * c + 1; } }
	Mat2(int l, idx r_, idx c_) : lay(l), r(r_), c(c_), st(multi::extensions_t<2>{srows(l, r_, c_), scols(l, r_, c_)}, guard_of<T>()) {}
	std::pair<idx, idx> at(idx i, idx j) const {   // harness-side model of where logical (i,j) lives in the store
		switch(lay) { case L_ARRAY: return {i, j}; case L_ROWC: return {i + 1, j}; case L_ROWP: return {i + 1, j + 1}; case L_COLC: return {j + 1, i}; case L_COLP: return {j + 1, i + 1}; default: return {i + 1, 1 + 2 * j}; }
	}
	template<class F> void with(F&& f) {
		switch(lay) {
			case L_ARRAY: f(st); break;
			case L_ROWC: { auto&& v = st({1, r + 1}); f(v); break; }
			case L_ROWP: { auto&& v = st({1, r + 1}, {1, c + 1}); f(v); break; }
			case L_COLC: { auto&& v = st({1, c + 1}).rotated(); f(v); break; }
			case L_COLP: { auto&& v = st({1, c + 1}, {1, r + 1}).rotated(); f(v); break; }
			default: { auto&& v = st({1, r + 1}, {1, 2 * c + 1}).rotated().strided(2).unrotated(); f(v); break; }
		}
	}
	void put(LM<T> const& x) { with([&](auto&& v) { for(idx i = 0; i < r; ++i) { for(idx j = 0; j < c; ++j) { v[i][j] = x(i, j); } } }); }
	LM<T> get() { LM<T> x(r, c); with([&](auto&& v) { for(idx i = 0; i < r; ++i) { for(idx j = 0; j < c; ++j) { x(i, j) = v[i][j]; } } }); return x; }
	std::string guard_damage() const {   // "" when every store element outside the view still holds the guard value
		idx R = srows(lay, r, c), C = scols(lay, r, c);
		std::vector<char> in(static_cast<std::size_t>(R * C), 0);
		for(idx i = 0; i < r; ++i) { for(idx j = 0; j < c; ++j) { auto p = at(i, j); in[static_cast<std::size_t>(p.first * C + p.second)] = 1; } }
		for(idx i = 0; i < R; ++i) { for(idx j = 0; j < C; ++j) {
			if(!in[static_cast<std::size_t>(i * C + j)] && !same(st[i][j], guard_of<T>())) { return "store[" + std::to_string(i) + "][" + std::to_string(j) + "] (outside the view) was " + num(guard_of<T>()) + " and is now " + num(T(st[i][j])); }
		} }
		return "";
	}
};

enum { V_ARRAY, V_UNIT, V_STR2, NLAY1 };
static char const* const lay1_name[] = {"owning-array", "unit-stride-block", "stride-2"};
static char const* const lay1_tok[] = {"arr", "u", "s2"};

template<class T> struct Vec1 {
	int lay; idx n; multi::array<T, 1> st;
	static idx ssize(int l, idx n) { switch(l) { case V_ARRAY: return n; case V_UNIT: return n + 2; default: return 2 * n + 1; } }
	Vec1(int l, idx n_) : lay(l), n(n_), st(multi::extensions_t<1>{ssize(l, n_)}, guard_of<T>()) {}
	idx at(idx i) const { switch(lay) { case V_ARRAY: return i; case V_UNIT: return i + 1; default: return 1 + 2 * i; } }
	template<class F> void with(F&& f) {
		switch(lay) {
			case V_ARRAY: f(st); break;
			case V_UNIT: { auto&& v = st({1, n + 1}); f(v); break; }
			default: { auto&& v = st({1, 2 * n + 1}).strided(2); f(v); break; }
		}
	}
	void fill(T x) { with([&](auto&& v) { for(idx i = 0; i < n; ++i) { v[i] = x; } }); }
	std::vector<T> get() { std::vector<T> x(static_cast<std::size_t>(n)); with([&](auto&& v) { for(idx i = 0; i < n; ++i) { x[static_cast<std::size_t>(i)] = v[i]; } }); return x; }
	std::string guard_damage() const {
		idx S = ssize(lay, n); std::vector<char> in(static_cast<std::size_t>(S), 0);
		for(idx i = 0; i < n; ++i) { in[static_cast<std::size_t>(at(i))] = 1; }
		for(idx i = 0; i < S; ++i) { if(!in[static_cast<std::size_t>(i)] && !same(st[i], guard_of<T>())) { return "store[" + std::to_string(i) + "] (outside the view) was " + num(guard_of<T>()) + " and is now " + num(T(st[i])); } }
		return "";
	}
};

// ---------------------------------------------------------------- configurations
enum { OP_POTRF, OP_GEQRF, OP_GESVD4, OP_GESVD1, OP_SYEV, NOPS };
static char const* const op_name[] = {"potrf(uplo,A)", "geqrf(A,tau)", "gesvd(A,U,s,VT)", "gesvd(A)->tuple", "syev(uplo,A,w)"};
static char const* const op_tok[] = {"potrf", "geqrf", "gesvd4", "gesvd1", "syev"};
enum { TY_D, TY_Z, TY_S, TY_C, NTY };
static char const* const ty_name[] = {"double", "complex<double>", "float", "complex<float>"};
static char const* const ty_tok[] = {"d", "z", "s", "c"};

struct Cfg {
	int op = 0, ty = TY_D;
	int la = 0, lu = 0, lv = 0, ls = 0;   // layouts: matrix A; U (gesvd); VT (gesvd); vector (tau / s / w)
	int m = 0, n = 0;                       // logical rows, columns of A (potrf/syev: m == n)
	long code = 0;                          // index into the data family
	int upper = 0;                          // potrf/syev: 1 = filling::upper
	int p = 0, var = 0;                     // potrf: p = 0 positive definite; p >= 1: leading minor of order p made non-positive, var 0: pivot == 0, var 1: pivot == -1
};
static std::string replay_of(Cfg const& c) {
	std::string s = std::string(op_tok[c.op]) + "/" + ty_tok[c.ty] + "/";
	switch(c.op) {
		case OP_POTRF: s += std::string(lay2_tok[c.la]) + "/" + (c.upper ? "upper" : "lower") + "/n" + std::to_string(c.n) + "/L" + std::to_string(c.code) + "/p" + std::to_string(c.p) + (c.p ? (c.var ? "m" : "z") : ""); break;
		case OP_GEQRF: s += std::string(lay2_tok[c.la]) + "," + lay1_tok[c.ls] + "/" + std::to_string(c.m) + "x" + std::to_string(c.n) + "/M" + std::to_string(c.code); break;
		case OP_GESVD4: s += std::string(lay2_tok[c.la]) + "," + lay2_tok[c.lu] + "," + lay1_tok[c.ls] + "," + lay2_tok[c.lv] + "/" + std::to_string(c.m) + "x" + std::to_string(c.n) + "/M" + std::to_string(c.code); break;
		case OP_GESVD1: s += std::string(lay2_tok[c.la]) + "/" + std::to_string(c.m) + "x" + std::to_string(c.n) + "/M" + std::to_string(c.code); break;
		default: s += std::string(lay2_tok[c.la]) + "," + lay1_tok[c.ls] + "/" + (c.upper ? "upper" : "lower") + "/n" + std::to_string(c.n) + "/S" + std::to_string(c.code); break;
	}
	return s;
}
static char const* szc(int n) { return n == 0 ? "0" : n == 1 ? "1" : "2+"; }
static std::string layouts_of(Cfg const& c) {
	switch(c.op) {
		case OP_POTRF: case OP_GESVD1: return std::string("A:") + lay2_name[c.la];
		case OP_GEQRF: return std::string("A:") + lay2_name[c.la] + ",tau:" + lay1_name[c.ls];
		case OP_GESVD4: return std::string("A:") + lay2_name[c.la] + ",U:" + lay2_name[c.lu] + ",s:" + lay1_name[c.ls] + ",VT:" + lay2_name[c.lv];
		default: return std::string("A:") + lay2_name[c.la] + ",w:" + lay1_name[c.ls];
	}
}
static std::string scalars_of(Cfg const& c) {
	if(c.op == OP_POTRF) { return std::string(c.upper ? "filling::upper" : "filling::lower") + (c.p == 0 ? ",positive-definite" : (c.p == 1 ? ",first-pivot-nonpositive" : ",later-pivot-nonpositive")); }
	if(c.op == OP_SYEV) { return c.upper ? "filling::upper" : "filling::lower"; }
	return "-";
}
// key prefix = class of the configuration (the symptom is appended)
static std::string class_of(Cfg const& c) {
	std::string sz = (c.op == OP_POTRF || c.op == OP_SYEV) ? std::string("n=") + szc(c.n) : std::string("rows=") + szc(c.m) + ",cols=" + szc(c.n);
	return std::string(op_name[c.op]) + "|" + ty_name[c.ty] + "|" + layouts_of(c) + "|" + sz + "|" + scalars_of(c);
}

// ---------------------------------------------------------------- data families
static long ipow(long b, long e) { long r = 1; for(long i = 0; i < e; ++i) { r *= b; } return r; }
// potrf: lower factor L, diagonal in {1,2}, strictly lower entries in {0,1} (real) / {0,1,i} (complex)
static long chol_total(int n, bool cx) { return ipow(2, n) * ipow(cx ? 3 : 2, n * (n - 1) / 2); }
static std::vector<long> chol_family(int n, bool cx, long family_size) {
	std::vector<long> f; long tot = chol_total(n, cx);
	if(n <= 3) { for(long k = 0; k < tot; ++k) { f.push_back(k); } return f; }
	long mult = cx ? 181 : 17, add = cx ? 7 : 5;   // coprime to the total: distinct codes spread over all digits (the first 64 are the quick family)
	for(long k = 0; k < family_size; ++k) { f.push_back((k * mult + add) % tot); }
	return f;
}
template<class T> LM<T> chol_factor(int n, long code) {
	LM<T> L(n, n, mk<T>(0));
	for(int i = 0; i < n; ++i) { L(i, i) = mk<T>((code & 1) ? 2.0 : 1.0); code >>= 1; }
	long base = is_cx<T>::value ? 3 : 2;
	for(int i = 1; i < n; ++i) { for(int j = 0; j < i; ++j) { long d = code % base; code /= base; L(i, j) = d == 0 ? mk<T>(0) : d == 1 ? mk<T>(1) : mk<T>(0, 1); } }
	return L;
}
// general matrices over {-1,0,1}
static std::vector<long> ge_family(int r, int c, int full_upto) {
	std::vector<long> f; long tot = ipow(3, static_cast<long>(r) * c);
	if(r * c <= full_upto) { for(long k = 0; k < tot; ++k) { f.push_back(k); } return f; }
	// fixed family of 200: zero matrix, all ones (rank 1), "identity" pattern, then an arithmetic progression of codes (step coprime to 3^(rc))
	std::set<long> seen; auto add = [&](long k) { if(seen.insert(k).second) { f.push_back(k); } };
	add((tot - 1) / 2);                                   // all digits 1 -> all entries 0
	add(tot - 1);                                         // all digits 2 -> all entries 1
	{ long k = 0, w = 1; for(int i = 0; i < r; ++i) { for(int j = 0; j < c; ++j) { k += w * (i == j ? 2 : 1); w *= 3; } } add(k); }
	for(long k = 0; f.size() < 200 && k < tot; ++k) { add((k * 97 + 13) % tot); }
	return f;
}
static LM<double> ge_matrix(int r, int c, long code) { LM<double> a(r, c);
	if(code < 0) { unsigned long x = static_cast<unsigned long>(-code) * 2654435761UL + 12345UL; for(int i = 0; i < r; ++i) { for(int j = 0; j < c; ++j) { x = x * 6364136223846793005UL + 1442695040888963407UL; a(i, j) = static_cast<double>((x >> 33) % 5) - 2.0; } } return a; }   // sizes whose base-3 code does not fit a long: deterministic entries in {-2..2}
	for(int i = 0; i < r; ++i) { for(int j = 0; j < c; ++j) { a(i, j) = static_cast<double>(code % 3) - 1.0; code /= 3; } } return a; }
// symmetric matrices over {-1,0,1} (syev)
static LM<double> sy_matrix(int n, long code) { LM<double> a(n, n); for(int i = 0; i < n; ++i) { for(int j = 0; j <= i; ++j) { a(i, j) = a(j, i) = static_cast<double>(code % 3) - 1.0; code /= 3; } } return a; }

// ---------------------------------------------------------------- result of one configuration
struct Res { char st = 'C'; std::string sym, detail, extra; };   // st: C correct, R rejected, V violation
static Res viol(std::string const& sym, std::string const& detail) { Res r; r.st = 'V'; r.sym = sym; r.detail = detail; return r; }

// ---------------------------------------------------------------- potrf
template<class T> Res exec_potrf(Cfg const& c) {
	idx n = c.n;
	LM<T> L = chol_factor<T>(c.n, c.code), A(n, n);
	for(idx i = 0; i < n; ++i) { for(idx j = 0; j < n; ++j) { T s = mk<T>(0); for(idx k = 0; k < n; ++k) { s += L(i, k) * cj(L(j, k)); } A(i, j) = s; } }
	double amax = max_abs(A);
	if(c.p > 0) { idx q = c.p - 1; A(q, q) -= L(q, q) * L(q, q) + mk<T>(c.var ? 1.0 : 0.0); }   // pivot of order p becomes 0 (var 0) or -1 (var 1), exactly
	bool up = c.upper != 0;
	LM<T> F(n, n, mk<T>(0));   // the exact factor in the selected triangle: upper: U = L^H (A = U^H U); lower: L (A = L L^H)
	for(idx i = 0; i < n; ++i) { for(idx j = 0; j < n; ++j) { if(up ? j >= i : j <= i) { F(i, j) = up ? cj(L(j, i)) : L(i, j); } } }
	LM<T> X(n, n);
	for(idx i = 0; i < n; ++i) { for(idx j = 0; j < n; ++j) { X(i, j) = (up ? j >= i : j <= i) ? A(i, j) : other_of<T>(); } }
	Mat2<T> M(c.la, n, n); M.put(X);
	idx ret_rows = -1, ret_cols = -1; LM<T> blk_copy;
	auto uplo = up ? multi::lapack::filling::upper : multi::lapack::filling::lower;
	try {
		M.with([&](auto&& V) {
			auto&& blk = multi::lapack::potrf(uplo, V);
			using std::get;
			ret_rows = blk.size(); ret_cols = get<1>(blk.sizes());
			idx k = std::min(ret_rows, ret_cols);
			blk_copy = LM<T>(k, k);
			for(idx i = 0; i < k; ++i) { for(idx j = 0; j < k; ++j) { blk_copy(i, j) = blk[i][j]; } }
		});
	} catch(std::exception const& e) {
		std::string g = M.guard_damage(); if(!g.empty()) { return viol("padding-modified-then-threw", g); }
		Res r; r.st = 'R'; r.sym = "exception"; r.detail = e.what(); return r;
	}
	std::string g = M.guard_damage(); if(!g.empty()) { return viol("padding-modified", g); }
	LM<T> Y = M.get();
	for(idx i = 0; i < n; ++i) { for(idx j = 0; j < n; ++j) { if(!(up ? j >= i : j <= i) && !same(Y(i, j), other_of<T>())) { return viol("unselected-triangle-modified", "A[" + std::to_string(i) + "][" + std::to_string(j) + "] lies in the triangle that was not selected, was " + num(other_of<T>()) + " and is now " + num(Y(i, j))); } } }
	idx kexp = c.p == 0 ? n : c.p - 1;
	if(ret_rows != kexp) { return viol("returned-size", "returned block has size " + std::to_string(ret_rows) + ", expected " + std::to_string(kexp) + (c.p ? " (first non-positive leading minor has order " + std::to_string(c.p) + ")" : " (positive definite)")); }
	double tol = 64.0 * eps_of<T>() * static_cast<double>(std::max<idx>(n, 1)) * amax;
	for(idx i = 0; i < kexp; ++i) { for(idx j = 0; j < kexp; ++j) { if(up ? j >= i : j <= i) {
		if(!(mag(Y(i, j) - F(i, j)) <= tol)) { return viol("wrong-factor", "A[" + std::to_string(i) + "][" + std::to_string(j) + "] expected " + num(F(i, j)) + " got " + num(Y(i, j)) + " (exact factor of " + lm_str(A) + ")"); }
	} } }
	if(ret_cols < kexp) { return viol("returned-block-shape", "returned block is " + std::to_string(ret_rows) + "x" + std::to_string(ret_cols) + ": fewer columns than its order " + std::to_string(kexp)); }
	for(idx i = 0; i < kexp; ++i) { for(idx j = 0; j < kexp; ++j) { if(up ? j >= i : j <= i) {
		if(!(mag(blk_copy(i, j) - F(i, j)) <= tol)) { return viol("returned-block-contents", "returned[" + std::to_string(i) + "][" + std::to_string(j) + "] expected " + num(F(i, j)) + " got " + num(blk_copy(i, j))); }
	} } }
	Res r; r.extra = std::string(ret_cols == ret_rows ? "potrf_returned_square" : "potrf_returned_rows_by_n") + "=1";
	r.detail = "returned " + std::to_string(ret_rows) + "x" + std::to_string(ret_cols) + "; A=" + lm_str(A) + " factor=" + lm_str(F);
	return r;
}

// ---------------------------------------------------------------- geqrf
// Bp (M x N) holds R on/above the diagonal and the Householder vectors below it; returns "" when Q*R reproduces B and Q is orthogonal
static std::string check_qr(LM<double> const& Bp, std::vector<double> const& tau, LM<double> const& B, std::string& detail) {
	idx M = Bp.r, N = Bp.c, k = std::min(M, N);
	if(static_cast<idx>(tau.size()) != k) { detail = "tau has " + std::to_string(tau.size()) + " elements"; return "tau-size"; }
	LM<double> W(M, N, 0.0), Q(M, M, 0.0);
	for(idx i = 0; i < M; ++i) { for(idx j = i; j < N; ++j) { W(i, j) = Bp(i, j); } Q(i, i) = 1.0; }
	for(idx h = k - 1; h >= 0; --h) {   // Q = H_0 H_1 ... H_{k-1}: apply H_{k-1} first
		std::vector<double> v(static_cast<std::size_t>(M), 0.0); v[static_cast<std::size_t>(h)] = 1.0;
		for(idx l = h + 1; l < M; ++l) { v[static_cast<std::size_t>(l)] = Bp(l, h); }
		double t = tau[static_cast<std::size_t>(h)];
		for(idx j = 0; j < N; ++j) { double s = 0; for(idx l = 0; l < M; ++l) { s += v[static_cast<std::size_t>(l)] * W(l, j); } for(idx l = 0; l < M; ++l) { W(l, j) -= t * s * v[static_cast<std::size_t>(l)]; } }
		for(idx j = 0; j < M; ++j) { double s = 0; for(idx l = 0; l < M; ++l) { s += v[static_cast<std::size_t>(l)] * Q(l, j); } for(idx l = 0; l < M; ++l) { Q(l, j) -= t * s * v[static_cast<std::size_t>(l)]; } }
	}
	double eps = std::numeric_limits<double>::epsilon();
	double tol = 64.0 * eps * norm_inf(B) * static_cast<double>(std::max(M, N));
	for(idx i = 0; i < M; ++i) { for(idx j = 0; j < N; ++j) { if(!(std::abs(W(i, j) - B(i, j)) <= tol)) { detail = "(Q*R)[" + std::to_string(i) + "][" + std::to_string(j) + "] = " + num(W(i, j)) + " but the input has " + num(B(i, j)) + " (tolerance " + num(tol) + ")"; return "reconstruction"; } } }
	double tolq = 64.0 * eps * static_cast<double>(M);
	for(idx i = 0; i < M; ++i) { for(idx j = 0; j < M; ++j) { double s = 0; for(idx l = 0; l < M; ++l) { s += Q(l, i) * Q(l, j); } if(!(std::abs(s - (i == j ? 1.0 : 0.0)) <= tolq)) { detail = "(Q^T Q)[" + std::to_string(i) + "][" + std::to_string(j) + "] = " + num(s); return "not-orthogonal"; } } }
	return "";
}

static Res exec_geqrf(Cfg const& c) {
	idx r = c.m, cc = c.n, k = std::min(r, cc);
	LM<double> A = ge_matrix(c.m, c.n, c.code);
	Mat2<double> MA(c.la, r, cc); MA.put(A);
	Vec1<double> TT(c.ls, k); TT.fill(fresh_of<double>());
	try {
		MA.with([&](auto&& V) { TT.with([&](auto&& t) { multi::lapack::geqrf(V, t); }); });
	} catch(std::exception const& e) {
		std::string g = MA.guard_damage(); if(g.empty()) { g = TT.guard_damage(); }
		if(!g.empty()) { return viol("padding-modified-then-threw", g); }
		Res rr; rr.st = 'R'; rr.sym = "exception"; rr.detail = e.what(); return rr;
	}
	std::string g = MA.guard_damage(); if(!g.empty()) { return viol("padding-modified", "A: " + g); }
	g = TT.guard_damage(); if(!g.empty()) { return viol("padding-modified", "tau: " + g); }
	LM<double> Y = MA.get(); std::vector<double> tau = TT.get();
	// the adaptor hands the row-major r x c array to LAPACK as the column-major c x r matrix A^T: A^T = Q R  (orientation "T");
	// a factorisation A = Q R stored directly in A (orientation "N") is accepted as well — the orientation is not documented.
	std::string dT, dN;
	std::string sT = check_qr(transposed(Y), tau, transposed(A), dT);
	if(sT.empty()) { Res rr; rr.extra = "geqrf_factorises_transpose=1"; rr.detail = "A=" + lm_str(A) + " out=" + lm_str(Y); return rr; }
	std::string sN = check_qr(Y, tau, A, dN);
	if(sN.empty()) { Res rr; rr.extra = "geqrf_factorises_as_given=1"; rr.detail = "A=" + lm_str(A) + " out=" + lm_str(Y); return rr; }
	std::string ts; for(auto x : tau) { ts += (ts.empty() ? "" : ",") + num(x); }
	return viol(sT, "A=" + lm_str(A) + " after the call A=" + lm_str(Y) + " tau=[" + ts + "]: as QR of A^T: " + dT + "; as QR of A: " + dN);
}

// ---------------------------------------------------------------- gesvd
static std::string check_svd(LM<double> const& A, LM<double> const& U, std::vector<double> const& s, LM<double> const& VT, bool vt_is_transposed, std::string& detail) {
	idx r = A.r, c = A.c, k = std::min(r, c);
	if(U.r != r || U.c != r || VT.r != c || VT.c != c || static_cast<idx>(s.size()) != k) { detail = "U is " + std::to_string(U.r) + "x" + std::to_string(U.c) + ", s has " + std::to_string(s.size()) + ", VT is " + std::to_string(VT.r) + "x" + std::to_string(VT.c); return "output-extents"; }
	for(idx i = 0; i < k; ++i) {
		double x = s[static_cast<std::size_t>(i)];
		if(!(x >= 0.0)) { detail = "s[" + std::to_string(i) + "] = " + num(x); return "singular-value-negative"; }
		if(i > 0 && !(s[static_cast<std::size_t>(i - 1)] >= x)) { detail = "s[" + std::to_string(i - 1) + "] = " + num(s[static_cast<std::size_t>(i - 1)]) + " < s[" + std::to_string(i) + "] = " + num(x); return "singular-values-order"; }
	}
	double eps = std::numeric_limits<double>::epsilon();
	double tol = 64.0 * eps * norm_inf(A) * static_cast<double>(std::max(r, c));
	for(idx i = 0; i < r; ++i) { for(idx j = 0; j < c; ++j) {
		double x = 0; for(idx l = 0; l < k; ++l) { x += U(i, l) * s[static_cast<std::size_t>(l)] * (vt_is_transposed ? VT(j, l) : VT(l, j)); }
		if(!(std::abs(x - A(i, j)) <= tol)) { detail = std::string("(U*diag(s)*") + (vt_is_transposed ? "VT^T" : "VT") + ")[" + std::to_string(i) + "][" + std::to_string(j) + "] = " + num(x) + " but A has " + num(A(i, j)) + " (tolerance " + num(tol) + ")"; return "reconstruction"; }
	} }
	for(int w = 0; w < 2; ++w) {
		LM<double> const& Q = w ? VT : U; idx n = Q.r; double tolq = 64.0 * eps * static_cast<double>(n);
		for(idx i = 0; i < n; ++i) { for(idx j = 0; j < n; ++j) { double x = 0; for(idx l = 0; l < n; ++l) { x += Q(l, i) * Q(l, j); } if(!(std::abs(x - (i == j ? 1.0 : 0.0)) <= tolq)) { detail = std::string(w ? "VT" : "U") + " is not orthogonal: (Q^T Q)[" + std::to_string(i) + "][" + std::to_string(j) + "] = " + num(x); return "not-orthogonal"; } } }
	}
	return "";
}
static std::string vec_str(std::vector<double> const& s) { std::string t = "["; for(std::size_t i = 0; i < s.size(); ++i) { t += (i ? "," : "") + num(s[i]); } return t + "]"; }

static Res exec_gesvd4(Cfg const& c) {
	idx r = c.m, cc = c.n, k = std::min(r, cc);
	LM<double> A = ge_matrix(c.m, c.n, c.code);
	Mat2<double> MA(c.la, r, cc), MU(c.lu, r, r), MV(c.lv, cc, cc); Vec1<double> SS(c.ls, k);
	MA.put(A); MU.put(LM<double>(r, r, fresh_of<double>())); MV.put(LM<double>(cc, cc, fresh_of<double>())); SS.fill(fresh_of<double>());
	auto guards = [&]() -> std::string {
		std::string g = MA.guard_damage(); if(!g.empty()) { return "A: " + g; }
		g = MU.guard_damage(); if(!g.empty()) { return "U: " + g; }
		g = MV.guard_damage(); if(!g.empty()) { return "VT: " + g; }
		g = SS.guard_damage(); if(!g.empty()) { return "s: " + g; }
		return "";
	};
	try {
		MA.with([&](auto&& a) { MU.with([&](auto&& u) { SS.with([&](auto&& s) { MV.with([&](auto&& vt) { multi::lapack::gesvd(a, u, s, vt); }); }); }); });
	} catch(std::exception const& e) {
		std::string g = guards(); if(!g.empty()) { return viol("padding-modified-then-threw", g); }
		Res rr; rr.st = 'R'; rr.sym = "exception"; rr.detail = e.what(); return rr;
	}
	std::string g = guards(); if(!g.empty()) { return viol("padding-modified", g); }
	LM<double> U = MU.get(), VT = MV.get(); std::vector<double> s = SS.get();
	std::string d; std::string sym = check_svd(A, U, s, VT, false, d);   // the fourth operand is named VT (template parameter VTArray2D): A = U diag(s) VT
	if(!sym.empty()) { return viol(sym, "A=" + lm_str(A) + " U=" + lm_str(U) + " s=" + vec_str(s) + " VT=" + lm_str(VT) + ": " + d); }
	Res rr; rr.detail = "A=" + lm_str(A) + " s=" + vec_str(s); return rr;
}

static Res exec_gesvd1(Cfg const& c) {   // auto [U, s, V] = gesvd(A) with A const: compiles for owning arrays only (api gap: `auto AA_copy = AA` needs a public copy constructor)
	idx r = c.m, cc = c.n;
	LM<double> A = ge_matrix(c.m, c.n, c.code);
	Mat2<double> MA(L_ARRAY, r, cc); MA.put(A);
	LM<double> U, VT; std::vector<double> s;
	try {
		auto const& a = std::as_const(MA.st);
		auto res = multi::lapack::gesvd(a);
		auto const& u = std::get<0>(res); auto const& sv = std::get<1>(res); auto const& vt = std::get<2>(res);
		using std::get;
		U = LM<double>(u.size(), get<1>(u.sizes())); for(idx i = 0; i < U.r; ++i) { for(idx j = 0; j < U.c; ++j) { U(i, j) = u[i][j]; } }
		VT = LM<double>(vt.size(), get<1>(vt.sizes())); for(idx i = 0; i < VT.r; ++i) { for(idx j = 0; j < VT.c; ++j) { VT(i, j) = vt[i][j]; } }
		for(idx i = 0; i < sv.size(); ++i) { s.push_back(sv[i]); }
	} catch(std::exception const& e) { Res rr; rr.st = 'R'; rr.sym = "exception"; rr.detail = e.what(); return rr; }
	LM<double> Y = MA.get();
	for(idx i = 0; i < r; ++i) { for(idx j = 0; j < cc; ++j) { if(!same(Y(i, j), A(i, j))) { return viol("input-modified", "const input A[" + std::to_string(i) + "][" + std::to_string(j) + "] was " + num(A(i, j)) + " and is now " + num(Y(i, j))); } } }
	// The third tuple element: the implementation yields VT (A = U diag(s) VT); the repository's svd test states A = U diag(s) V^T.  Either is accepted, which one holds is counted.
	std::string d1, d2; std::string s1 = check_svd(A, U, s, VT, false, d1); std::string s2 = s1.empty() ? std::string("x") : check_svd(A, U, s, VT, true, d2);
	if(!s1.empty() && !s2.empty()) { return viol(s1, "A=" + lm_str(A) + " U=" + lm_str(U) + " s=" + vec_str(s) + " third=" + lm_str(VT) + ": " + d1 + "; " + d2); }
	std::string d3; bool also = s1.empty() && check_svd(A, U, s, VT, true, d3).empty();
	Res rr; rr.extra = std::string(s1.empty() ? (also ? "gesvd1_third_is_VT_and_V(symmetric)" : "gesvd1_third_is_VT_only") : "gesvd1_third_is_V_only") + "=1";
	rr.detail = "A=" + lm_str(A) + " s=" + vec_str(s); return rr;
}

// ---------------------------------------------------------------- syev (cannot be compiled on the pinned tree; see notes)
#ifdef LAPACKMC_HAVE_SYEV
static Res exec_syev(Cfg const& c) {
	idx n = c.n; bool up = c.upper != 0;
	LM<double> A = sy_matrix(c.n, c.code), X(n, n);
	for(idx i = 0; i < n; ++i) { for(idx j = 0; j < n; ++j) { X(i, j) = (up ? j >= i : j <= i) ? A(i, j) : other_of<double>(); } }
	Mat2<double> MA(c.la, n, n); MA.put(X);
	Vec1<double> WW(c.ls, n); WW.fill(fresh_of<double>());
	idx ret = -1;
	auto uplo = up ? multi::blas::LAPACKMC_BLAS_FILLING::upper : multi::blas::LAPACKMC_BLAS_FILLING::lower;
	try {
		MA.with([&](auto&& a) { WW.with([&](auto&& w) { auto&& blk = multi::lapack::syev(uplo, a, w); ret = blk.size(); }); });
	} catch(std::exception const& e) {
		std::string g = MA.guard_damage(); if(g.empty()) { g = WW.guard_damage(); }
		if(!g.empty()) { return viol("padding-modified-then-threw", g); }
		Res rr; rr.st = 'R'; rr.sym = "exception"; rr.detail = e.what(); return rr;
	}
	std::string g = MA.guard_damage(); if(!g.empty()) { return viol("padding-modified", "A: " + g); }
	g = WW.guard_damage(); if(!g.empty()) { return viol("padding-modified", "w: " + g); }
	if(ret != n) { return viol("returned-size", "returned block has size " + std::to_string(ret) + ", expected " + std::to_string(n)); }
	LM<double> V = MA.get(); std::vector<double> w = WW.get();
	for(idx i = 1; i < n; ++i) { if(!(w[static_cast<std::size_t>(i - 1)] <= w[static_cast<std::size_t>(i)])) { return viol("eigenvalues-order", "w=" + vec_str(w)); } }
	double eps = std::numeric_limits<double>::epsilon(), tol = 64.0 * eps * std::max(norm_inf(A), 1.0) * static_cast<double>(n), tolq = 64.0 * eps * static_cast<double>(n);
	std::string why[2];
	for(int o = 0; o < 2; ++o) {   // o = 0: eigenvectors are the rows of the result; o = 1: the columns
		auto vec = [&](idx kk, idx i) { return o == 0 ? V(kk, i) : V(i, kk); };
		for(idx kk = 0; kk < n && why[o].empty(); ++kk) {
			for(idx i = 0; i < n; ++i) { double x = 0; for(idx j = 0; j < n; ++j) { x += A(i, j) * vec(kk, j); } if(!(std::abs(x - w[static_cast<std::size_t>(kk)] * vec(kk, i)) <= tol)) { why[o] = "(A v - w v)[" + std::to_string(i) + "] = " + num(x - w[static_cast<std::size_t>(kk)] * vec(kk, i)) + " for eigenpair " + std::to_string(kk); break; } }
			for(idx k2 = 0; k2 < n && why[o].empty(); ++k2) { double x = 0; for(idx i = 0; i < n; ++i) { x += vec(kk, i) * vec(k2, i); } if(!(std::abs(x - (kk == k2 ? 1.0 : 0.0)) <= tolq)) { why[o] = "eigenvectors " + std::to_string(kk) + "," + std::to_string(k2) + " have inner product " + num(x); } }
		}
	}
	if(!why[0].empty() && !why[1].empty()) { return viol("eigen-residual", "A=" + lm_str(A) + " w=" + vec_str(w) + " V=" + lm_str(V) + ": as rows: " + why[0] + "; as columns: " + why[1]); }
	Res rr; rr.extra = std::string(why[0].empty() ? "syev_vectors_in_rows" : "syev_vectors_in_columns") + "=1"; rr.detail = "A=" + lm_str(A) + " w=" + vec_str(w); return rr;
}
#endif

static Res exec(Cfg const& c) {
	switch(c.op) {
		case OP_POTRF:
			switch(c.ty) { case TY_D: return exec_potrf<double>(c); case TY_Z: return exec_potrf<std::complex<double>>(c); case TY_S: return exec_potrf<float>(c); default: return exec_potrf<std::complex<float>>(c); }
		case OP_GEQRF: return exec_geqrf(c);
		case OP_GESVD4: return exec_gesvd4(c);
		case OP_GESVD1: return exec_gesvd1(c);
#ifdef LAPACKMC_HAVE_SYEV
		case OP_SYEV: return exec_syev(c);
#endif
		default: return viol("harness", "operation not compiled in");
	}
}

// ---------------------------------------------------------------- the grid
struct Grid { bool thorough = false; std::map<std::string, long> counts; };
template<class F> void enumerate(Grid& g, F&& emit) {
	bool const th = g.thorough;
	// ---- potrf
	std::vector<int> tys = {TY_D, TY_Z}; if(th) { tys.push_back(TY_S); tys.push_back(TY_C); }
	for(int ty : tys) { bool cx = ty == TY_Z || ty == TY_C;
		for(int n = 0; n <= (th ? 5 : 4); ++n) { auto fam = chol_family(n, cx, th && n == 4 ? 256 : 64);
			for(int la = 0; la < NLAY2; ++la) {
				if(n == 0 && !(la == L_ARRAY || la == L_ROWP || la == L_COLP)) { continue; }   // a store with a zero extent collapses; the empty operand is a 0x0 block of a padded store
				for(int up = 0; up < 2; ++up) { for(int p = 0; p <= n; ++p) { for(int var = 0; var < (p ? 2 : 1); ++var) { for(long code : fam) {
					Cfg c; c.op = OP_POTRF; c.ty = ty; c.la = la; c.m = c.n = n; c.upper = up; c.p = p; c.var = var; c.code = code; ++g.counts["potrf"]; emit(c);
				} } } }
			}
		}
	}
	// ---- geqrf, gesvd: every r x c with r, c in {1,2,3}; all matrices over {-1,0,1} while r*c <= full_upto, a fixed family of 200 beyond
	int const full_upto = th ? 6 : 4, dmax = th ? 4 : 3;   // thorough adds the sizes with a dimension of 4 (families of 200)
	for(int la = 0; la < NLAY2; ++la) { for(int ls = 0; ls < NLAY1; ++ls) { for(int r = 1; r <= dmax; ++r) { for(int cc = 1; cc <= dmax; ++cc) { for(long code : ge_family(r, cc, 6)) {
		Cfg c; c.op = OP_GEQRF; c.la = la; c.ls = ls; c.m = r; c.n = cc; c.code = code; ++g.counts["geqrf"]; emit(c);
	} } } } }
	for(int r = 1; r <= dmax; ++r) { for(int cc = 1; cc <= dmax; ++cc) { for(long code : ge_family(r, cc, 6)) {
		Cfg c; c.op = OP_GESVD1; c.la = L_ARRAY; c.m = r; c.n = cc; c.code = code; ++g.counts["gesvd1"]; emit(c);
	} } }
	for(int la = 0; la < NLAY2; ++la) { for(int lu = 0; lu < NLAY2; ++lu) { for(int lv = 0; lv < NLAY2; ++lv) { for(int ls = 0; ls < NLAY1; ++ls) {
		bool any_arr = la == L_ARRAY || lu == L_ARRAY || lv == L_ARRAY || ls == V_ARRAY, all_arr = la == L_ARRAY && lu == L_ARRAY && lv == L_ARRAY && ls == V_ARRAY;
		if(any_arr && !all_arr) { continue; }   // owning arrays: the all-owning call form (as in the repository's use); views: the full cross product
		for(int r = 1; r <= dmax; ++r) { for(int cc = 1; cc <= dmax; ++cc) { for(long code : ge_family(r, cc, full_upto)) {
			Cfg c; c.op = OP_GESVD4; c.la = la; c.lu = lu; c.lv = lv; c.ls = ls; c.m = r; c.n = cc; c.code = code; ++g.counts["gesvd4"]; emit(c);
		} } }
	} } } }
	// ---- larger sizes (workspace formulas, blocked code paths of LAPACK, leading dimensions far from the sizes): every (r, c) of a size menu x 3 generated matrices,
	//      all-owning call form and the all-padded-view call form
	{
		std::vector<int> big = th ? std::vector<int>{5, 6, 7, 8, 9, 12, 17, 33, 40} : std::vector<int>{5, 7, 8, 9, 12, 33};
		for(int r : big) { for(int cc : big) { for(long code : {-1L, -2L, -3L}) {
			for(int lay = 0; lay < 2; ++lay) {
				{ Cfg c; c.op = OP_GEQRF; c.la = lay ? L_ROWP : L_ARRAY; c.ls = lay ? V_UNIT : V_ARRAY; c.m = r; c.n = cc; c.code = code; ++g.counts["geqrf"]; emit(c); }
				{ Cfg c; c.op = OP_GESVD4; c.la = c.lu = c.lv = lay ? L_ROWP : L_ARRAY; c.ls = lay ? V_UNIT : V_ARRAY; c.m = r; c.n = cc; c.code = code; ++g.counts["gesvd4"]; emit(c); }
			}
			{ Cfg c; c.op = OP_GESVD1; c.la = L_ARRAY; c.m = r; c.n = cc; c.code = code; ++g.counts["gesvd1"]; emit(c); }
		} } }
	}
#ifdef LAPACKMC_HAVE_SYEV
	for(int la = 0; la < NLAY2; ++la) { for(int ls = 0; ls < NLAY1; ++ls) { for(int up = 0; up < 2; ++up) { for(int n = 1; n <= 3; ++n) { for(long code = 0; code < ipow(3, n * (n + 1) / 2); ++code) {
		Cfg c; c.op = OP_SYEV; c.la = la; c.ls = ls; c.m = c.n = n; c.upper = up; c.code = code; ++g.counts["syev"]; emit(c);
	} } } } }
#endif
}

// ---------------------------------------------------------------- running configurations in forked children
static long g_eval = 0, g_nontrivial = 0, g_correct = 0, g_rejected = 0, g_violating = 0, g_children = 0;
static std::map<std::string, std::array<long, 3>> g_table;   // op|layouts -> correct, rejected, violating
static std::set<std::string> g_sampled;
static std::string g_table_path;   // --table=<file>: per layout-combination outcome counts (for the notes)

static std::string one_line(std::string s, std::size_t cap = 900) { for(auto& ch : s) { if(ch == '\t' || ch == '\n' || ch == '\r') { ch = ' '; } } if(s.size() > cap) { s.resize(cap); } return s; }

// Non-vacuity of "rejected": the layouts the property names as supported must be ACCEPTED for every size >= 1 — owning arrays and row-major
// blocks (contiguous or padded) with owning / unit-stride vectors for every routine (these are the repository's own call forms), and in addition
// column-major (rotated) blocks for potrf, whose adaptor has a branch for them.  A rejection there is a violation, not an admissible outcome.
static bool must_accept(Cfg const& c) {
	auto rowmajor = [](int l) { return l == L_ARRAY || l == L_ROWC || l == L_ROWP; };
	auto unitvec = [](int l) { return l == V_ARRAY || l == V_UNIT; };
	if(c.m < 1 || c.n < 1) { return false; }
	switch(c.op) {
		case OP_POTRF: return rowmajor(c.la) || c.la == L_COLC || c.la == L_COLP;
		case OP_GEQRF: case OP_SYEV: return rowmajor(c.la) && unitvec(c.ls);
		case OP_GESVD4: return rowmajor(c.la) && rowmajor(c.lu) && rowmajor(c.lv) && unitvec(c.ls);
		default: return true;
	}
}

static void account(Cfg const& c, Res const& r0, std::string const& stderr_digest) {
	Res r = r0;
	if(r.st == 'R' && must_accept(c)) { r.st = 'V'; r.detail = "a supported layout was rejected by " + r.sym + ": " + r.detail; r.sym = "rejected-supported-layout"; }
	++g_eval; if(c.m >= 1 && c.n >= 1) { ++g_nontrivial; }
	mc::R.add(std::string("evaluations_") + op_tok[c.op]);
	auto& row = g_table[std::string(op_tok[c.op]) + " " + layouts_of(c)];
	if(r.st == 'C') { ++g_correct; ++row[0]; } else if(r.st == 'R') { ++g_rejected; ++row[1]; mc::R.add(std::string("rejected_by_") + (r.sym == "exception" ? "exception" : "assertion")); } else { ++g_violating; ++row[2]; }
	if(!r.extra.empty()) { auto p = r.extra.find('='); mc::R.add(r.extra.substr(0, p), std::atol(r.extra.c_str() + p + 1)); }
	mc::R.outcome(std::string(op_tok[c.op]) + "|" + layouts_of(c) + "|" + r.st + "|" + r.sym);
	if(r.st == 'V') {
		mc::J j; j.s("harness", "lapackmc").s("replay", replay_of(c)).s("operation", op_name[c.op]).s("element_type", ty_name[c.ty]).s("layouts", layouts_of(c))
			.s("sizes", std::to_string(c.m) + "x" + std::to_string(c.n)).s("scalars", scalars_of(c)).s("symptom", r.sym).s("detail", r.detail);
		if(!stderr_digest.empty()) { j.s("stderr", stderr_digest); }
		mc::R.violation(class_of(c) + "|" + r.sym, j.str());
	} else {
		// up to 4 written-out configurations: the first correct one with all sizes >= 2 of each operation, and the first rejected one
		std::string slot = r.st == 'C' ? (c.m >= 2 && c.n >= 2 && (c.op != OP_POTRF || c.p == 0) ? std::string("C") + op_tok[c.op] : std::string()) : std::string("R");
		if(!slot.empty() && mc::R.samples.size() < 4 && g_sampled.insert(slot).second) {
			mc::R.sample(mc::J().s("configuration", replay_of(c)).s("operation", op_name[c.op]).s("layouts", layouts_of(c)).s("scalars", scalars_of(c)).s("outcome", r.st == 'C' ? "correct" : "rejected").s("detail", r.detail).str(), 4);
		}
	}
}

// A configuration that ended in abort() (caught in the child, see run_one) or in the death of the child:
// rejected when the first diagnostic is a failed assertion located in include/boost/multi and no sanitizer report precedes it; a violation otherwise.
static Res classify_abnormal(bool by_sigabrt, std::string const& cause, std::string const& se, std::string& digest) {
	digest = one_line(mc::crash_digest(se), 500);
	std::string cls = mc::crash_class(se);
	if(by_sigabrt && cls == "assertion") {
		std::istringstream is(se); std::string line;
		while(std::getline(is, line)) { if(line.find("Assertion") != std::string::npos) { break; } }
		if(line.find("boost/multi/") != std::string::npos || line.find("include/multi/") != std::string::npos) { Res r; r.st = 'R'; r.sym = "assertion"; r.detail = one_line(line, 300); return r; }
		return viol("crash:foreign-assertion", cause + ": " + digest);
	}
	return viol("crash:" + (cls == "assertion" ? std::string("assertion-other") : cls), cause + ": " + digest);
}

// In the child SIGABRT is caught and the configuration is left by siglongjmp: a failed assert() then costs no fork.  abort() is what
// the assertion (and, with abort_on_error=1, a sanitizer report) calls; what it was is decided from the captured stderr exactly as for a dead child.
// Any other signal, or an exit, still kills the child and is classified by the parent.
static sigjmp_buf g_jmp; static volatile sig_atomic_t g_armed = 0;
static void on_abort(int) { if(g_armed) { g_armed = 0; siglongjmp(g_jmp, 1); } }
static Res run_one(Cfg const& c, int errfd, bool& aborted) {
	aborted = false;
	if(sigsetjmp(g_jmp, 1) == 0) {
		g_armed = 1; Res r;
		try { r = exec(c); } catch(...) { r.st = 'R'; r.sym = "exception"; r.detail = "non-std exception"; }
		g_armed = 0; return r;
	}
	aborted = true;
	std::string se = mc::read_fd_all(errfd), digest;
	Res r = classify_abnormal(true, "abort()", se, digest);
	if(r.st == 'V') { r.detail += " [stderr: " + digest + "]"; }
	return r;
}

static void run_batch(std::vector<Cfg> const& batch, bool inprocess = false) {
	std::size_t next = 0;
	while(next < batch.size()) {
		if(inprocess) { Res r = exec(batch[next]); account(batch[next], r, ""); ++next; continue; }
		mc::cur_set(class_of(batch[next]), replay_of(batch[next]));
		int pfd[2]; if(pipe(pfd) != 0) { std::perror("pipe"); std::exit(3); }
		int err = memfd_create("lmc_err", 0);
		std::fflush(stdout); std::fflush(stderr);
		++g_children;
		pid_t pid = fork();
		if(pid == 0) {
			close(pfd[0]); dup2(err, 2); dup2(err, 1);
			std::signal(SIGABRT, on_abort);
			for(std::size_t i = next; i < batch.size(); ++i) {
				if(ftruncate(err, 0) != 0) {} lseek(err, 0, SEEK_SET);
				bool aborted = false;
				Res r = run_one(batch[i], err, aborted);
				std::string line = std::to_string(i) + "\t" + r.st + "\t" + one_line(r.sym, 100) + "\t" + one_line(r.detail) + "\t" + one_line(r.extra, 100) + "\n";
				std::size_t off = 0; while(off < line.size()) { auto w = write(pfd[1], line.data() + off, line.size() - off); if(w <= 0) { _exit(4); } off += static_cast<std::size_t>(w); }
				if(r.st == 'V') { break; }   // the rest of the batch runs in a fresh child
			}
			_exit(0);
		}
		close(pfd[1]);
		std::string out; { char buf[65536]; for(;;) { auto k = read(pfd[0], buf, sizeof buf); if(k <= 0) { break; } out.append(buf, static_cast<std::size_t>(k)); } }
		close(pfd[0]);
		int st = 0; waitpid(pid, &st, 0);
		std::string se = mc::read_fd_all(err); close(err);
		bool last_was_v = false; std::size_t pos = 0;
		while(pos < out.size()) {
			auto nl = out.find('\n', pos); if(nl == std::string::npos) { break; }   // an incomplete line = the child died while writing; the configuration is re-attributed below
			std::string line = out.substr(pos, nl - pos); pos = nl + 1;
			std::vector<std::string> f; std::size_t q = 0; for(;;) { auto t = line.find('\t', q); if(t == std::string::npos) { f.push_back(line.substr(q)); break; } f.push_back(line.substr(q, t - q)); q = t + 1; }
			if(f.size() < 5 || static_cast<std::size_t>(std::atol(f[0].c_str())) != next) { break; }
			Res r; r.st = f[1].empty() ? 'V' : f[1][0]; r.sym = f[2]; r.detail = f[3]; r.extra = f[4];
			account(batch[next], r, ""); last_was_v = r.st == 'V'; ++next;
		}
		bool clean = WIFEXITED(st) && WEXITSTATUS(st) == 0;
		if(next < batch.size() && !(clean && last_was_v)) {   // the child ended while executing batch[next]
			std::string digest, cause = WIFSIGNALED(st) ? ("signal " + std::to_string(WTERMSIG(st))) : ("exit " + std::to_string(WEXITSTATUS(st)) + " without a result");
			Res r = classify_abnormal(WIFSIGNALED(st) && WTERMSIG(st) == SIGABRT, cause, se, digest);
			account(batch[next], r, r.st == 'V' ? digest : std::string()); ++next;
		}
	}
}

int main(int argc, char** argv) {
	mc::Args args(argc, argv);
	bool thorough = args.get("tier", "quick") == "thorough";
	mc::set_deadline(static_cast<double>(args.geti("deadline", 3000)));
	long shard = args.geti("shard", 0), nshards = std::max(1L, args.geti("nshards", 1));
	std::string only = args.get("replay", "");
	g_table_path = args.get("table", "");
	std::size_t const batch_size = static_cast<std::size_t>(args.geti("batch", 96));

	if(!only.empty()) {   // one configuration, found by enumerating the (thorough) grid; executed in a forked child so that an abort can be classified (--inprocess: no fork)
		Grid g; g.thorough = true; bool found = false; Cfg hit;
		enumerate(g, [&](Cfg const& c) { if(!found && replay_of(c) == only) { found = true; hit = c; } });
		if(!found) { std::printf("REPLAY VIOLATION no such configuration: %s\n", only.c_str()); return 2; }
		run_batch({hit}, args.has("inprocess"));
		if(mc::R.viol.empty()) { std::printf("REPLAY OK %s outcome=%s\n", only.c_str(), g_rejected ? "rejected" : "correct"); return 0; }
		for(auto const& [k, v] : mc::R.viol) { std::printf("REPLAY VIOLATION %s %s\n", k.c_str(), v.second.c_str()); }
		return 1;
	}

	auto body = [&](std::set<std::string> const& skip) {
		Grid g; g.thorough = thorough;
		std::vector<Cfg> batch; long counter = 0; bool stopped = false;
		auto flush = [&] { if(batch.empty()) { return; } if(mc::past_deadline()) { stopped = true; batch.clear(); return; } run_batch(batch); batch.clear(); };
		enumerate(g, [&](Cfg const& c) {
			if((counter++ % nshards) != shard || stopped) { return; }
			if(!skip.empty() && skip.count(replay_of(c))) { return; }
			if(!batch.empty() && (batch.back().op != c.op || batch.back().la != c.la || batch.back().lu != c.lu || batch.back().lv != c.lv || batch.back().ls != c.ls)) { flush(); }
			batch.push_back(c); if(batch.size() >= batch_size) { flush(); }
		});
		flush();
		if(stopped) { mc::R.exhaustive = false; }
		mc::R.add("evaluations", g_eval); mc::R.add("distinct_nontrivial", g_nontrivial); mc::R.add("correct", g_correct); mc::R.add("rejected", g_rejected); mc::R.add("violating", g_violating); mc::R.add("children", g_children);
		long accepted_layouts = 0, rejected_layouts = 0; for(auto const& [k, v] : g_table) { if(v[0] + v[2] > 0) { ++accepted_layouts; } else { ++rejected_layouts; } }
		if(shard == 0) {
			mc::R.add("layout_combinations_not_rejected", accepted_layouts); mc::R.add("layout_combinations_always_rejected", rejected_layouts);   // as seen by shard 0 (every shard sees every combination)
			mc::R.note(std::string("tier=") + (thorough ? "thorough" : "quick") + " grid (all shards together): potrf=" + std::to_string(g.counts["potrf"]) + " geqrf=" + std::to_string(g.counts["geqrf"]) + " gesvd(A,U,s,VT)=" + std::to_string(g.counts["gesvd4"]) + " gesvd(A)=" + std::to_string(g.counts["gesvd1"]) + " syev=" + std::to_string(g.counts["syev"]));
			mc::R.note(std::string("potrf: types {double, complex<double>") + (thorough ? ", float, complex<float>" : "") + "} x n 0.." + (thorough ? "5" : "4") + " x 6 layouts (owning array; row-major contiguous/padded block; column-major contiguous/padded block; column-stride-2) x {upper, lower} x all factors L (diag {1,2}, off-diag {0,1} real / {0,1,i} complex) for n<=3, a fixed family of " + std::string(thorough ? "256 for n=4 and 64 for n=5" : "64 for n=4") + " x {positive definite; pivot p=1..n made 0 or -1}");
			mc::R.note(std::string("geqrf: r,c in 1..") + (thorough ? "4" : "3") + " x 6 layouts of A x 3 layouts of tau (owning, unit-stride block, stride 2) x all matrices over {-1,0,1} for rc<=6, a fixed family of 200 beyond; oracle: Householder reconstruction of A^T (or A) and orthogonality of Q, 64*eps*|A|*max(r,c)");
			mc::R.note(std::string("gesvd(A,U,s,VT): r,c in 1..") + (thorough ? "4" : "3") + " x (5 view layouts)^3 x 2 layouts of s + the all-owning form x all matrices over {-1,0,1} for rc<=" + (thorough ? "6" : "4") + ", 200 beyond; gesvd(A): owning arrays (views do not compile: api gap) x all matrices rc<=6, 200 beyond; oracle: |A-U*diag(s)*VT| <= 64*eps*|A|*max(r,c), U, VT orthogonal, s >= 0 non-increasing");
#ifndef LAPACKMC_HAVE_SYEV
			mc::R.note("syev: not compiled (lapack/syev.hpp and lapack/getrf.hpp do not preprocess on this tree: mismatched include delimiters; core::syev is commented out); grid present behind -DLAPACKMC_HAVE_SYEV");
#endif
			mc::R.note("api gaps: lapack/potrf.hpp and lapack/geqrf.hpp cannot be included in one translation unit (lapack::filling declared twice; the harness renames the blas enum while reading geqrf.hpp); gesvd(A) is ill-formed for views (copies its argument with `auto`); geqrf(A, tau) needs an lvalue tau");
		}
		if(!g_table_path.empty()) { if(FILE* tf = std::fopen(g_table_path.c_str(), "w")) { for(auto const& [k, v] : g_table) { std::fprintf(tf, "%s\tcorrect=%ld\trejected=%ld\tviolating=%ld\n", k.c_str(), v[0], v[1], v[2]); } std::fclose(tf); } }
		mc::R.emit(stdout);
	};
	return mc::supervise(body);
}
