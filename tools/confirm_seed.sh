#!/bin/bash
# usage: tools/confirm_seed.sh <seed dir under /verif/seeded>   — confirms: patch applies to /repo HEAD, 78/78 tests pass with it,
# demo fails with it and passes without it.  Writes <dir>/confirm.log and prints one summary line.
set -u
DIR=$(realpath "$1"); NAME=$(basename "$DIR")
WT=/tmp/seedwt_$NAME
rm -rf "$WT"; git -C /repo worktree prune
git -C /repo worktree add --detach "$WT" HEAD >/dev/null 2>&1 || { echo "$NAME worktree failed"; exit 3; }
LOG="$DIR/confirm.log"; : > "$LOG"
LIBS="-lopenblas -llapack -lfftw3 -lboost_serialization"; grep -q "<execution>" "$DIR/demo.cpp" && LIBS="$LIBS -ltbb"
NDBG="-DNDEBUG"; grep -qE "^#[ ]*error" "$DIR/demo.cpp" && grep -q "NDEBUG" "$DIR/demo.cpp" && NDBG=""; grep -q '"demo_needs_assertions": *true' "$DIR/meta.json" 2>/dev/null && NDBG=""; CXX=g++; grep -q "mpi.h\|adaptors/mpi" "$DIR/demo.cpp" && CXX=mpicxx
export OMPI_ALLOW_RUN_AS_ROOT=1 OMPI_ALLOW_RUN_AS_ROOT_CONFIRM=1 OPENBLAS_NUM_THREADS=1
# demo without the change
$CXX -std=c++17 -O1 $NDBG -I"$WT/include" "$DIR/demo.cpp" -o "$WT/demo_clean" $LIBS >>"$LOG" 2>&1; "$WT/demo_clean" >>"$LOG" 2>&1; RC_CLEAN=$?
if ! git -C "$WT" apply -3 "$DIR/patch.diff" >>"$LOG" 2>&1 && ! git -C "$WT" apply "$DIR/patch.diff" >>"$LOG" 2>&1; then echo "$NAME PATCH-DOES-NOT-APPLY"; git -C /repo worktree remove --force "$WT"; exit 3; fi
$CXX -std=c++17 -O1 $NDBG -I"$WT/include" "$DIR/demo.cpp" -o "$WT/demo_mut" $LIBS >>"$LOG" 2>&1; "$WT/demo_mut" >>"$LOG" 2>&1; RC_MUT=$?
( cd "$WT" && cmake -G Ninja -B _build -S . -DCMAKE_BUILD_TYPE=RelWithDebInfo -DCMAKE_CXX_FLAGS=-Wno-error >/dev/null 2>&1 && cmake --build _build -j${JOBS:-8} 2>&1 | tail -2 >>"$LOG"; ctest --test-dir _build -j8 --timeout 900 2>&1 | tail -4 >>"$LOG" )
PASSLINE=$(grep -E "tests passed" "$LOG" | tail -1)
echo "$NAME demo_clean_rc=$RC_CLEAN demo_mutant_rc=$RC_MUT suite: $PASSLINE"
git -C /repo worktree remove --force "$WT"
