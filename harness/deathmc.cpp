// C20(b) — invalid uses are stopped by a library assertion before any out-of-bounds access.  At every E1 view state:
//  (1) indexing with first-1 and last in each dimension (valid indices elsewhere), through chained [] and through call syntax, then READING the element;
//  (2) assignment from a source whose extents differ in exactly one dimension (+1 / -1) or are permuted with equal element count, through every assignment form.
// Every probe runs in a forked child of the assertion-enabled ASan build; required outcome: SIGABRT whose stderr shows an assertion located in include/boost/multi
// and no sanitizer report before it.
#include "../engine/view_model.hpp"
#include "../engine/view_oracle.hpp"

using namespace vm;

struct Death { std::string cls, detail; };   // cls: "assertion" (good) | "survived" | "sanitizer-first" | "other-signal" | "foreign-assertion"

template<class F> Death expect_death(F&& f) {
	int err = memfd_create("dm_err", 0);
	std::fflush(stdout); std::fflush(stderr);
	pid_t pid = fork();
	if(pid == 0) { dup2(err, 2); f(); _exit(0); }
	int st = 0; waitpid(pid, &st, 0);
	std::string se = mc::read_fd_all(err); close(err);
	if(WIFEXITED(st)) { return {"survived", "the invalid use ran to completion without any diagnostic"}; }
	auto pa = se.find("Assertion"); auto ps = se.find("Sanitizer"); auto pu = se.find("runtime error:");
	auto first_san = std::min(ps, pu);
	if(pa == std::string::npos) { return {first_san != std::string::npos ? "sanitizer-first" : "other-signal", mc::crash_digest(se).substr(0, 300)}; }
	if(first_san < pa) { return {"sanitizer-first", mc::crash_digest(se).substr(0, 300)}; }
	if(se.find("include/boost/multi") == std::string::npos) { return {"foreign-assertion", mc::crash_digest(se).substr(0, 300)}; }
	return {"assertion", ""};
}

static long g_probes = 0, g_good = 0;
static std::string vr_sizes(std::vector<idx> const& s) { std::string p; for(std::size_t i = 0; i < s.size(); ++i) { p += (i ? "x" : ""); p += std::to_string(s[i]); } return p; }

template<class V> int read_brackets(V&& v, idx const* t) { if constexpr(rank_of<V> == 1) { return v[t[0]]; } else { return read_brackets(v[t[0]], t + 1); } }
template<class V, std::size_t... I> int read_call(V&& v, idx const* t, std::index_sequence<I...>) { return v(t[I]...); }

enum AForm { A_ARRAY, A_VIEW, A_SHORT, A_ELEMENTS, A_ELEMENTS_OTHER, NAFORMS };
static char const* const aform_name[] = {"view = array", "view = view", "view = array<short>", "view.elements() = other.elements()", "view.elements() = array<short>.elements()"};

template<class V, class Report>
void probe_state(V&& v, MView const& m, std::string const& trace, Report&& report) {
		constexpr int R = rank_of<decltype(v)>;
		constexpr auto SEQ = std::make_index_sequence<static_cast<std::size_t>(R)>{};
		// (1) out-of-range indexing
		for(int k = 0; k < R; ++k) {
			for(int side = 0; side < 2; ++side) {
				std::vector<idx> t(static_cast<std::size_t>(R)); for(int j = 0; j < R; ++j) { t[static_cast<std::size_t>(j)] = m.d[static_cast<std::size_t>(j)].first; }
				auto u = static_cast<std::size_t>(k); t[u] = side == 0 ? m.d[u].first - 1 : m.d[u].first + m.d[u].size;
				std::string probe = "index " + tup_str(t) + " (dimension " + std::to_string(k) + (side ? ": last" : ": first-1") + ")";
				mc::cur_set("index-out-of-range", trace); mc::cur_phase(probe.c_str());
				{ ++g_probes; Death d = expect_death([&] { volatile int x = read_brackets(v, t.data()); (void)x; }); if(d.cls == "assertion") { ++g_good; } else { report("index-out-of-range", std::string("brackets|dim") + (k == 0 ? "0" : k == R - 1 ? "last" : "middle"), d, probe); } }
				{ ++g_probes; Death d = expect_death([&] { volatile int x = read_call(v, t.data(), SEQ); (void)x; }); if(d.cls == "assertion") { ++g_good; } else { report("index-out-of-range", std::string("call|dim") + (k == 0 ? "0" : k == R - 1 ? "last" : "middle"), d, probe); } }
			}
		}
		// (2) assignment between different extents
		if constexpr(!is_ro_v<decltype(v)>) {
			std::vector<idx> ext; for(auto const& d : m.d) { ext.push_back(d.size); }
			std::vector<std::pair<std::string, std::vector<idx>>> srcs;
			for(int k = 0; k < R; ++k) {
				auto u = static_cast<std::size_t>(k); std::string dn = k == 0 ? "dim0" : k == R - 1 ? "dimlast" : "dimmiddle";
				{ auto e = ext; e[u] += 1; srcs.push_back({"larger-in-" + dn, e}); }
				if(ext[u] >= 2) { auto e = ext; e[u] -= 1; srcs.push_back({"smaller-in-" + dn, e}); }
			}
			if(R >= 2) { auto e = ext; std::rotate(e.begin(), e.begin() + 1, e.end()); if(e != ext) { srcs.push_back({"permuted-same-count", e}); } }
			if(R >= 3) { auto e = ext; std::swap(e[1], e[2]); if(e != ext) { srcs.push_back({"inner-permuted-same-count", e}); } }
			for(auto const& [sn, se] : srcs) {
				for(int f = 0; f < NAFORMS; ++f) {
					// elements() is a FLAT range: assigning flat ranges of equal length is valid whatever the extents; only a different element count is invalid there
					if((f == A_ELEMENTS || f == A_ELEMENTS_OTHER) && sn.find("permuted") != std::string::npos) { continue; }
					std::string probe = std::string(aform_name[f]) + " with source extents {" + vr_sizes(se) + "} into extents {" + vr_sizes(ext) + "}";
					mc::cur_set("assign-different-extents", trace); mc::cur_phase(probe.c_str());
					++g_probes;
					Death d = expect_death([&] {
						multi::array<int, R> w(vo::make_extensions<R>(se), 5); multi::array<short, R> ws(vo::make_extensions<R>(se), static_cast<short>(5));
						switch(f) {
							case A_ARRAY: v = w; break;
							case A_VIEW: v = w(); break;
							case A_SHORT: v = ws; break;
							case A_ELEMENTS: v.elements() = w().elements(); break;
							case A_ELEMENTS_OTHER: v.elements() = ws().elements(); break;
							default: break;
						}
					});
					if(d.cls == "assertion") { ++g_good; } else { report("assign-different-extents", std::string(aform_name[f]) + "|" + sn, d, probe); }
				}
			}
		}
}

template<int D, class Root>
static void run_root(Root& root, int const* data, idx N, std::vector<idx> const& sizes, std::string const& rootname, std::string const& prefix, Config const& cfg, std::set<std::string> const& skip) {
	MView m0 = root_model(sizes);
	long nontrivial = 0;
	auto st = bfs(root, m0, cfg, skip, [&](auto&& v, MView const& m, Hist const& h) -> bool {
		if(vo::check_view(v, m, data, N).bad) { return false; }
		if(m.has_empty_dim()) { return true; }   // index bases of empty dimensions are unobservable
		probe_state(v, m, prefix + hist_str(h), [&](std::string const& what, std::string const& sub, Death const& d, std::string const& probe) {
			constexpr int R = rank_of<decltype(v)>;
			mc::R.violation("D" + std::to_string(R) + "|" + what + "|" + sub + "|" + d.cls, mc::J().s("harness", "deathmc").s("replay", prefix + hist_str(h)).s("root", rootname).s("trace", hist_str(h)).s("probe", probe).s("outcome", d.cls).s("detail", d.detail).str());
		});
		++nontrivial;
		constexpr int R = rank_of<decltype(v)>;
		if(mc::R.samples.size() < 3 && h.size() == 1 && R >= 2) { mc::R.sample(mc::J().s("root", rootname).s("trace", hist_str(h)).s("model_state", key_of(m)).s("probes", "2*D out-of-range indices x {brackets, call} + mismatched-extent sources x 5 assignment forms").str()); }
		return true;
	}, prefix);
	mc::R.add("states", st.states); mc::R.add("transitions", st.transitions); mc::R.add("distinct_nontrivial", nontrivial);
	mc::R.add("death_probes", g_probes); mc::R.add("died_by_library_assertion", g_good); g_probes = 0; g_good = 0;
	if(st.capped) { mc::R.exhaustive = false; }
	mc::R.note(rootname + ": completed_depth=" + std::to_string(st.completed_depth) + " states=" + std::to_string(st.states));
}

#include "../engine/view_roots.hpp"

int main(int argc, char** argv) {
	mc::Args args(argc, argv);
	bool thorough = args.get("tier", "quick") == "thorough";
	Config cfg;
	cfg.maxdepth = static_cast<int>(args.geti("depth", thorough ? 2 : 1));
	cfg.menu0.call_full = false; cfg.menu0.call_maxargs = 2; cfg.menu.call_full = false; cfg.menu.call_maxargs = 1;
	// roots: exactly-sized heap storage (owning arrays), so that ASan red zones surround the elements; a few shapes per rank
	vr::shape_filter = [thorough](vr::Shape const& sh, bool owning) {
		if(!owning) { return false; }
		idx N = 1; for(auto s : sh.s) { N *= s; }
		if(N < 2) { return false; }
		static std::set<std::vector<idx>> const quick = {{4}, {2, 3}, {3, 2}, {2, 3, 2}, {2, 1, 2, 3}};
		return thorough ? N <= 16 : quick.count(sh.s) != 0;
	};
	int rc = vr::main_roots(args, cfg, thorough, [](std::vector<idx> const& sizes, bool owning, Hist const& h) { return vr::replay_generic(sizes, owning, h, [&](auto&& v, MView const& m, int const*, idx) {
		int bad = 0;
		if(m.has_empty_dim()) { std::printf("REPLAY: empty view, nothing is probed\n"); return 0; }
		probe_state(v, m, "replay", [&](std::string const& what, std::string const& sub, Death const& d, std::string const& probe) { ++bad; std::printf("REPLAY VIOLATION %s|%s -> %s : %s %s\n", what.c_str(), sub.c_str(), d.cls.c_str(), probe.c_str(), d.detail.c_str()); });
		if(!bad) { std::printf("REPLAY OK (every invalid use at this state died by a library assertion)\n"); }
		return bad ? 1 : 0;
	}); });
	return rc;
}
