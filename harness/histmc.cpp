// E2 harness for C04 (value semantics), C06 (reextent/clear/reshape/assign) and C08 (construct once / destroy once / storage returned).
// Compile-time configuration:  -DHM_D=<1..4>  -DHM_ELEM=<0 tracked element | 1 int (trivially default constructible)>
#include "../engine/hist_model.hpp"
#ifdef HM_SERIAL   // serialisation-load as a letter of the history alphabet (C08: monitors across the clear()+reextent load path; C17: every prior state of the loading array)
#include <boost/archive/text_iarchive.hpp>
#include <boost/archive/text_oarchive.hpp>
#include <boost/archive/binary_iarchive.hpp>
#include <boost/archive/binary_oarchive.hpp>
#include <boost/serialization/nvp.hpp>
#include <sstream>
#include <boost/multi/detail/serialization.hpp>
#endif

#ifndef HM_D
#define HM_D 2
#endif
#ifndef HM_ELEM
#define HM_ELEM 0
#endif

using namespace hm;
constexpr int D = HM_D;
#if HM_ELEM == 0
using T = instr::E;
constexpr int DFLT = 0;                       // value-initialised tracked element
static char const* const ELEM = "tracked";
#elif HM_ELEM == 2
using T = instr::Q;
constexpr int DFLT = 0;                       // non-trivial default constructor, trivial destructor: must be value-initialised (a skipped construction shows the allocator's pre-fill)
static char const* const ELEM = "nontrivial-ctor-trivial-dtor";
#else
using T = int;
constexpr int DFLT = instr::PREFILL_INT;      // trivially default constructible: the library must not write; the allocator's pre-fill shows through
static char const* const ELEM = "int";
#endif
#ifdef HM_ALLOC  // C10 mode: stateful allocator with configurable propagation traits, two distinct instances
#ifndef HM_CA
#define HM_CA 0
#endif
#ifndef HM_MA
#define HM_MA 0
#endif
#ifndef HM_S
#define HM_S 0
#endif
#ifndef HM_SOCCC
#define HM_SOCCC 0
#endif
using Tr = instr::Traits<(HM_CA != 0), (HM_MA != 0), (HM_S != 0), (HM_SOCCC != 0)>;
constexpr int IDA = 1, IDB = 2;
constexpr bool ALLOC_MODE = true;
#else
using Tr = instr::DefaultTraits;
constexpr int IDA = 0, IDB = 0;
constexpr bool ALLOC_MODE = false;
#endif
using Alloc = instr::LA<T, Tr>;
using Arr = multi::array<T, D, Alloc>;
static int soccc(int id) { return Tr::soccc_fresh ? id + 100 : id; }

struct Pool {
	std::unique_ptr<Arr> a, b;
	multi::array<int, D> src;
	multi::array<short, D> ss;
};

static std::vector<idx> src_shape() { switch(D) { case 1: return {6}; case 2: return {3, 4}; case 3: return {2, 3, 2}; default: return {2, 1, 2, 3}; } }
static std::vector<std::vector<idx>> shape_menu(bool thorough) {
	std::vector<std::vector<idx>> r;
	switch(D) {
		case 1: r = {{0}, {1}, {2}, {3}}; if(thorough) { r.push_back({5}); } break;
		case 2: r = {{0, 0}, {1, 2}, {2, 2}, {2, 3}, {3, 1}}; if(thorough) { r.push_back({0, 2}); r.push_back({2, 0}); r.push_back({3, 3}); } break;
		case 3: r = {{0, 0, 0}, {1, 2, 2}, {2, 1, 2}, {2, 2, 1}, {2, 2, 2}}; if(thorough) { r.push_back({2, 3, 2}); r.push_back({2, 0, 2}); } break;
		default: r = {{0, 0, 0, 0}, {1, 2, 1, 2}, {2, 1, 2, 1}, {2, 2, 1, 1}}; if(thorough) { r.push_back({2, 2, 2, 2}); } break;
	}
	return r;
}
struct SrcView { std::string hist; bool const_safe; };
static std::vector<SrcView> view_menu() {
	switch(D) {
		case 1: return {{"", true}, {"sliced(1,4)", true}, {"strided(2)", true}, {"sliced(2,2)", true}, {"sliced3(0,6,3)", true}, {"reversed()", true}};
		case 2: return {{"", true}, {"rotated()", true}, {"sliced(1,3)", true}, {"call(r0:2,r1:3)", true}, {"transposed();strided(2)", false}, {"sliced(0,0)", true}, {"call(_,r1:1)", true}, {"sliced(0,2);flatted();partitioned(2)", false}, {"transposed();sliced3(0,4,2)", false}};
		case 3: return {{"", true}, {"rotated()", true}, {"unrotated()", true}, {"call(_,r1:3)", true}, {"transposed()", true}, {"sliced(0,1)", true}, {"rotated();strided(3)", false}, {"call(_,r0:0)", true}};
		default: return {{"", true}, {"rotated()", true}, {"call(_,_,r0:1)", true}, {"transposed()", true}};
	}
}

struct ViewInfo { vm::Hist h; std::vector<idx> ext; std::vector<int> vals; bool const_safe; std::string name; };
static std::vector<ViewInfo> g_views;

static void init_views() {
	auto ss = src_shape();
	for(auto const& sv : view_menu()) {
		ViewInfo vi; vi.h = vm::parse_hist(sv.hist); vi.const_safe = sv.const_safe; vi.name = sv.hist.empty() ? "whole" : sv.hist;
		vm::MView m = vm::root_model(ss);
		bool ok = true; for(auto const& o : vi.h) { ok = ok && vm::m_apply(m, o); }
		if(!ok || m.rank() != D) { std::fprintf(stderr, "bad view menu entry %s\n", sv.hist.c_str()); std::exit(3); }
		for(auto const& d : m.d) { vi.ext.push_back(d.size); }
		vm::for_each_index(m, [&](std::vector<idx> const&, idx off) { vi.vals.push_back(static_cast<int>(300 + off)); });
		g_views.push_back(vi);
	}
}

template<class F> void with_view(Pool& p, ViewInfo const& vi, bool cst, F&& f) {
	bool done = false;
	auto k = [&](auto&& v) { if constexpr(vm::rank_of<decltype(v)> == D) { f(v); done = true; } };
	if(cst) { vm::walk(std::as_const(p.src)(), vi.h.data(), static_cast<int>(vi.h.size()), k); }
	else { vm::walk(p.src(), vi.h.data(), static_cast<int>(vi.h.size()), k); }
	if(!done) { W.err("harness: source view not expressible: " + vi.name); }
}

template<class V> decltype(auto) first_ref(V&& v) { if constexpr(vm::rank_of<V> == 1) { return v[0]; } else { return first_ref(v[0]); } }
template<class V> decltype(auto) last_ref(V&& v) { if constexpr(vm::rank_of<V> == 1) { return v[v.size() - 1]; } else { return last_ref(v[v.size() - 1]); } }

static auto X(std::vector<idx> const& s) { return vo::make_extensions<D>(s); }
static void iota(Arr& a, int base) { idx n = a.num_elements(); for(idx i = 0; i < n; ++i) { a.data_elements()[i] = T(static_cast<int>(base + i)); } }

template<int DD, class A> void il_assign(A& a) {
	if constexpr(DD == 1) { a = {T(41), T(42), T(43)}; }
	else if constexpr(DD == 2) { a = {{T(41), T(42)}, {T(43), T(44)}, {T(45), T(46)}}; }
	else if constexpr(DD == 3) { a = {{{T(41), T(42)}, {T(43), T(44)}}}; }
}
template<int DD, class A> std::unique_ptr<A> il_construct() {
	if constexpr(DD == 1) { return std::make_unique<A>(std::initializer_list<T>{T(41), T(42), T(43)}); }
	else if constexpr(DD == 2) { return std::make_unique<A>(A{{T(41), T(42)}, {T(43), T(44)}, {T(45), T(46)}}); }
	else if constexpr(DD == 3) { return std::make_unique<A>(A{{{T(41), T(42)}, {T(43), T(44)}}}); }
	else { return std::make_unique<A>(); }
}
template<int DD, class A> void assign_rows(A& a, std::vector<idx> const& s, int base, bool construct, std::unique_ptr<A>* out) {
	bool const cf = W.count_faults; W.count_faults = false;  // building the input range is the harness's business, not a fault opportunity
	if constexpr(DD == 1) {
		std::vector<T> r; for(idx i = 0; i < s[0]; ++i) { r.push_back(T(static_cast<int>(base + i))); }
		W.count_faults = cf;
		if(construct) { *out = std::make_unique<A>(r.begin(), r.end()); } else { a.assign(r.begin(), r.end()); }
	} else {
		using Sub = typename A::value_type; std::vector<Sub> rows; std::vector<idx> tail(s.begin() + 1, s.end()); idx per = prod(tail);
		for(idx i = 0; i < s[0]; ++i) { Sub r(vo::make_extensions<DD - 1>(tail)); for(idx j = 0; j < per; ++j) { r.data_elements()[j] = T(static_cast<int>(base + i*per + j)); } rows.push_back(std::move(r)); }
		W.count_faults = cf;
		if(construct) { *out = std::make_unique<A>(rows.begin(), rows.end()); } else { a.assign(rows.begin(), rows.end()); }
	}
}

using OD = OpDef<Pool>;
static std::vector<OD> g_ops;

static std::string rel_class(std::vector<idx> const& o, idx ocount, std::vector<idx> const& n) {
	idx nc = prod(n);
	if(ocount == 0 && nc == 0) { return "empty-to-empty"; }
	if(ocount == 0) { return "from-empty"; }
	if(nc == 0) { return "to-empty"; }
	bool grow = false, shrink = false; for(std::size_t j = 0; j < n.size(); ++j) { if(n[j] > o[j]) { grow = true; } if(n[j] < o[j]) { shrink = true; } }
	return grow && shrink ? "mixed" : grow ? "grow" : shrink ? "shrink" : "same";
}

static void build_ops(bool thorough) {
	auto shapes = shape_menu(thorough);
	auto add = [&](OD o) { g_ops.push_back(std::move(o)); };
	// ---- C04: copy / move / swap / self / decay between slots
	add({"a=b", "a=b", "C04", F_SAME_EXT_NO_ALLOC, [](MPool& m) { int al = m.a.alloc; m.a = m.b; m.a.alloc = Tr::pocca ? m.b.alloc : al; return true; }, [](Pool& p) { *p.a = *p.b; }, {}});
	add({"b=a", "a=b", "C04", F_NONE, [](MPool& m) { int al = m.b.alloc; m.b = m.a; m.b.alloc = Tr::pocca ? m.a.alloc : al; return true; }, [](Pool& p) { *p.b = *p.a; }, {}});
	// move assignment: buffer transfer when the allocator propagates or the instances are equal; otherwise element-wise (source valid but unspecified)
	add({"a=std::move(b)", "a=std::move(b)", "C04", F_NO_ELEM_OPS | F_SRC_EMPTY_B, [](MPool& m) { if(!Tr::pocma && m.a.alloc != m.b.alloc) { return false; } m.a.ext = m.b.ext; m.a.v = m.b.v; m.b.v.clear(); if(Tr::pocma) { m.a.alloc = m.b.alloc; } return true; }, [](Pool& p) { *p.a = std::move(*p.b); }, {}});
	add({"b=std::move(a)", "a=std::move(b)", "C04", F_NO_ELEM_OPS | F_SRC_EMPTY_A, [](MPool& m) { if(!Tr::pocma && m.a.alloc != m.b.alloc) { return false; } m.b.ext = m.a.ext; m.b.v = m.a.v; m.a.v.clear(); if(Tr::pocma) { m.b.alloc = m.a.alloc; } return true; }, [](Pool& p) { *p.b = std::move(*p.a); }, {}});
	if(ALLOC_MODE && !Tr::pocma) {
		add({"a=std::move(b) [unequal non-propagating allocators]", "a=std::move(b)[unequal,non-propagating]", "C04", F_NONE, [](MPool& m) { if(m.a.alloc == m.b.alloc) { return false; } m.a.ext = m.b.ext; m.a.v = m.b.v; m.b_unspecified = true; return true; }, [](Pool& p) { *p.a = std::move(*p.b); }, {}});
	}
	add({"a=a", "a=a", "C04", F_SELF | F_NEVER_ALLOC, [](MPool&) { return true; }, [](Pool& p) { auto& r = *p.a; *p.a = r; }, {}});
	// swap with unequal non-propagating allocators is undefined for every allocator-aware container: out of domain
	auto m_swap = [](MPool& m) { if(!Tr::pocs && m.a.alloc != m.b.alloc) { return false; } std::swap(m.a.ext, m.b.ext); std::swap(m.a.v, m.b.v); if(Tr::pocs) { std::swap(m.a.alloc, m.b.alloc); } return true; };
	add({"swap(a,b)", "swap(a,b)", "C04", F_NO_ELEM_OPS, m_swap, [](Pool& p) { using std::swap; swap(*p.a, *p.b); }, {}});
	add({"a.swap(b)", "a.swap(b)", "C04", F_NO_ELEM_OPS, m_swap, [](Pool& p) { p.a->swap(*p.b); }, {}});
	add({"a=Arr(b)", "copy-construct", "C04", F_NONE, [](MPool& m) { m.a = m.b; m.a.alloc = soccc(m.b.alloc); return true; }, [](Pool& p) { p.a = std::make_unique<Arr>(*p.b); }, {}});
	if(ALLOC_MODE) {
		for(int id : {1, 2}) {
			std::string sid = std::to_string(id);
			add({"a=Arr(b,alloc#" + sid + ")", "copy-construct(alloc)", "C04", F_NONE, [id](MPool& m) { m.a = m.b; m.a.alloc = id; return true; }, [id](Pool& p) { p.a = std::make_unique<Arr>(*p.b, Alloc(id)); }, {}});
			add({"a=Arr(std::move(b),alloc#" + sid + ")", "move-construct(alloc)", "C04", F_NONE,
				[id](MPool& m) { m.a = m.b; m.a.alloc = id; if(m.b.alloc == id) { m.b.v.clear(); } else { m.b_unspecified = true; } return true; }, [id](Pool& p) { auto t = std::make_unique<Arr>(std::move(*p.b), Alloc(id)); p.a = std::move(t); }, {}});
		}
	}
	add({"a=Arr(std::move(b))", "move-construct", "C04", F_NO_ELEM_OPS | F_SRC_EMPTY_B, [](MPool& m) { m.a = m.b; m.b.v.clear(); return true; }, [](Pool& p) { auto t = std::make_unique<Arr>(std::move(*p.b)); p.a = std::move(t); }, {}});
	add({"a=+b", "a=+b", "C04", F_NONE, [](MPool& m) { m.a.ext = m.b.ext; m.a.v = m.b.v; if(Tr::pocma) { m.a.alloc = soccc(m.b.alloc); } return true; }, [](Pool& p) { *p.a = +*p.b; }, {}});
	add({"a=Arr()", "default-construct", "C04", F_NONE, [](MPool& m) { m.a = MArr{}; m.a.ext.assign(static_cast<std::size_t>(D), 0); return true; }, [](Pool& p) { p.a = std::make_unique<Arr>(); }, {}});
	add({"a.front-element=9", "element-write", "C04", F_NEVER_ALLOC, [](MPool& m) { if(m.a.v.empty()) { return false; } m.a.v.front() = 9; return true; }, [](Pool& p) { first_ref(*p.a) = T(9); }, {}});
	add({"b.back-element=11", "element-write", "C04", F_NEVER_ALLOC, [](MPool& m) { if(m.b.v.empty()) { return false; } m.b.v.back() = 11; return true; }, [](Pool& p) { last_ref(*p.b) = T(11); }, {}});
	// ---- constructors with shapes
	for(auto const& s : shapes) {
		std::string ss = ext_str(s);
		add({"a=Arr(" + ss + ")", "construct(extents)", "C04", F_NONE, [s](MPool& m) { m.a = m_fresh(s, 0, [](idx) { return DFLT; }); return true; }, [s](Pool& p) { p.a = std::make_unique<Arr>(X(s)); }, {}});
		add({"a=Arr(" + ss + ",alloc)", "construct(extents,alloc)", "C04", F_NONE, [s](MPool& m) { m.a = m_fresh(s, IDA, [](idx) { return DFLT; }); return true; }, [s](Pool& p) { p.a = std::make_unique<Arr>(X(s), Alloc(IDA)); }, {}});
		add({"b=Arr(" + ss + ",7)", "construct(extents,value)", "C04", F_NONE, [s](MPool& m) { m.b = m_fresh(s, 0, [](idx) { return 7; }); return true; }, [s](Pool& p) { p.b = std::make_unique<Arr>(X(s), T(7)); }, {}});
		add({"b=Arr(" + ss + ",8,alloc)", "construct(extents,value,alloc)", "C04", F_NONE, [s](MPool& m) { m.b = m_fresh(s, IDB, [](idx) { return 8; }); return true; }, [s](Pool& p) { p.b = std::make_unique<Arr>(X(s), T(8), Alloc(IDB)); }, {}});
		if(ALLOC_MODE) { add({"b=Arr(" + ss + ",6,alloc#1)", "construct(extents,value,alloc)", "C04", F_NONE, [s](MPool& m) { m.b = m_fresh(s, IDA, [](idx) { return 6; }); return true; }, [s](Pool& p) { p.b = std::make_unique<Arr>(X(s), T(6), Alloc(IDA)); }, {}}); }
		add({"b=iota" + ss, "construct+element-writes", "C04", F_NONE, [s](MPool& m) { m.b = m_fresh(s, 0, [](idx i) { return static_cast<int>(200 + i); }); return true; }, [s](Pool& p) { p.b = std::make_unique<Arr>(X(s)); iota(*p.b, 200); }, {}});
		add({"a=array<T,std::allocator>" + ss, "a=array<other allocator type>", "C04", F_SAME_EXT_NO_ALLOC | F_ALLOC_UNSPEC, [s](MPool& m) { m.a.ext = s; m.a.v.assign(static_cast<std::size_t>(prod(s)), 0); for(idx i = 0; i < prod(s); ++i) { m.a.v[static_cast<std::size_t>(i)] = static_cast<int>(800 + i); } return true; },
			[s](Pool& p) { bool const cf = W.count_faults; W.count_faults = false; multi::array<T, D> o(X(s)); for(idx i = 0; i < o.num_elements(); ++i) { o.data_elements()[i] = T(static_cast<int>(800 + i)); } W.count_faults = cf; *p.a = o; }, {}});
		// ---- C06
		auto rc = [s](MPool const& m) { return rel_class(m.a.ext, m.a.count(), s); };
		add({"a.reextent(" + ss + ")", "reextent(x)", "C06", F_KEEP_DATA_IF_SAME, [s](MPool& m) { m.a = m_reextent(m.a, s, DFLT); return true; }, [s](Pool& p) { p.a->reextent(X(s)); }, rc});
		add({"a.reextent(" + ss + ",77)", "reextent(x,v)", "C06", F_KEEP_DATA_IF_SAME, [s](MPool& m) { m.a = m_reextent(m.a, s, 77); return true; }, [s](Pool& p) { p.a->reextent(X(s), T(77)); }, rc});
		add({"std::move(a).reextent(" + ss + ")", "rvalue-reextent(x)", "C06", F_KEEP_DATA_IF_SAME,
			[s](MPool& m) {  // rvalue overload: preserves elements only when the extents are unchanged (array.hpp, test/reextent.cpp); otherwise fresh default elements
				if(m.a.count() != 0 && m.a.ext == s) { return true; }
				if(m.a.count() == 0 && prod(s) == 0) { m.a.ext = s; return true; }
				m.a = m_fresh(s, m.a.alloc, [](idx) { return DFLT; }); return true; },
			[s](Pool& p) { std::move(*p.a).reextent(X(s)); }, rc});
		add({"a.reshape(" + ss + ")", "reshape", "C06", F_NEVER_ALLOC | F_SELF, [s](MPool& m) { if(m.a.count() == 0 || prod(s) != m.a.count()) { return false; } m.a.ext = s; return true; }, [s](Pool& p) { p.a->reshape(X(s)); }, {}});
		if(prod(s) > 0) {
			add({"a.assign(first,last)" + ss, "assign(first,last)", "C06", F_ALLOC_UNSPEC, [s](MPool& m) { m.a = m_fresh(s, m.a.alloc, [](idx i) { return static_cast<int>(500 + i); }); return true; },
				[s](Pool& p) { assign_rows<D, Arr>(*p.a, s, 500, false, nullptr); }, {}});
			add({"a=Arr(first,last)" + ss, "construct(first,last)", "C04", F_NONE, [s](MPool& m) { m.a = m_fresh(s, 0, [](idx i) { return static_cast<int>(600 + i); }); return true; },
				[s](Pool& p) { assign_rows<D, Arr>(*p.a, s, 600, true, &p.a); }, {}});
		}
	}
#ifdef HM_SERIAL
	add({"b<-load(save(a),text)", "serialization-load", "C17", F_NONE, [](MPool& m) { int al = m.b.alloc; m.b = m.a; m.b.alloc = al; return true; },
		[](Pool& p) { bool const cf = W.count_faults; W.count_faults = false; std::stringstream ss; { boost::archive::text_oarchive oa(ss); oa << boost::serialization::make_nvp("a", *p.a); } W.count_faults = cf; boost::archive::text_iarchive ia(ss); ia >> boost::serialization::make_nvp("a", *p.b); }, {}});
	add({"a<-load(save(b),binary)", "serialization-load", "C17", F_NONE, [](MPool& m) { int al = m.a.alloc; m.a = m.b; m.a.alloc = al; return true; },
		[](Pool& p) { bool const cf = W.count_faults; W.count_faults = false; std::stringstream ss; { boost::archive::binary_oarchive oa(ss); oa << boost::serialization::make_nvp("b", *p.b); } W.count_faults = cf; boost::archive::binary_iarchive ia(ss); ia >> boost::serialization::make_nvp("b", *p.a); }, {}});
#endif
	// assign from a range of the array's OWN rows (different size: the library must build the new value before it releases the old one) and from the other array's rows
	add({"a.assign(a.begin()+1,a.end())", "assign(first,last)", "C06", F_ALLOC_UNSPEC, [](MPool& m) { if(m.a.count() == 0 || m.a.ext[0] < 2) { return false; } idx n = m.a.ext[0], row = m.a.count()/n; m.a.v.erase(m.a.v.begin(), m.a.v.begin() + row); m.a.ext[0] = n - 1; return true; },
		[](Pool& p) { p.a->assign(p.a->begin() + 1, p.a->end()); }, {}});
	add({"a.assign(a.begin(),a.begin()+1)", "assign(first,last)", "C06", F_ALLOC_UNSPEC, [](MPool& m) { if(m.a.count() == 0 || m.a.ext[0] < 2) { return false; } idx n = m.a.ext[0], row = m.a.count()/n; m.a.v.resize(static_cast<std::size_t>(row)); m.a.ext[0] = 1; return true; },
		[](Pool& p) { p.a->assign(p.a->begin(), p.a->begin() + 1); }, {}});
	add({"a.assign(b.begin(),b.end())", "assign(first,last)", "C06", F_ALLOC_UNSPEC, [](MPool& m) { if(m.b.count() == 0) { return false; } int al = m.a.alloc; m.a = m.b; m.a.alloc = al; return true; },
		[](Pool& p) { p.a->assign(p.b->begin(), p.b->end()); }, {}});
	add({"a.clear()", "clear", "C06", F_NEVER_ALLOC, [](MPool& m) { m.a.v.clear(); return true; }, [](Pool& p) { p.a->clear(); }, {}});
	add({"a={}", "a={}", "C06", F_NEVER_ALLOC, [](MPool& m) { m.a.v.clear(); return true; }, [](Pool& p) { *p.a = {}; }, {}});
	// ---- initializer lists (static shapes)
	{
		std::vector<idx> ls; if(D == 1) { ls = {3}; } else if(D == 2) { ls = {3, 2}; } else if(D == 3) { ls = {1, 2, 2}; }
		if(D <= 3) {
			add({"a={nested initializer list " + ext_str(ls) + "}", "a={list}", "C06", F_ALLOC_UNSPEC, [ls](MPool& m) { m.a = m_fresh(ls, m.a.alloc, [](idx i) { return static_cast<int>(41 + i); }); return true; },
				[](Pool& p) { il_assign<D>(*p.a); }, {}});
			add({"a=Arr{nested initializer list " + ext_str(ls) + "}", "construct{list}", "C04", F_NONE, [ls](MPool& m) { m.a = m_fresh(ls, 0, [](idx i) { return static_cast<int>(41 + i); }); return true; },
				[](Pool& p) { p.a = il_construct<D, Arr>(); }, {}});
		}
	}
	// ---- sources that are views of src / arrays of convertible element type
	for(std::size_t k = 0; k < g_views.size(); ++k) {
		auto const& vi = g_views[k];
		auto model_assign = [k](MPool& m) { auto const& v = g_views[k]; m.a.ext = v.ext; m.a.v = v.vals; return true; };
		auto model_ctor = [k](MPool& m) { auto const& v = g_views[k]; m.a = MArr{}; m.a.ext = v.ext; m.a.v = v.vals; return true; };
		std::string vc = "view:" + vi.name;
		add({"a=src." + vi.name, "a=view", "C04", F_SAME_EXT_NO_ALLOC | F_ALLOC_UNSPEC, model_assign, [k](Pool& p) { with_view(p, g_views[k], false, [&](auto&& v) { *p.a = v; }); }, [vc](MPool const&) { return vc; }});
		add({"a=Arr(src." + vi.name + ")", "construct(view)", "C04", F_NONE, model_ctor, [k](Pool& p) { with_view(p, g_views[k], false, [&](auto&& v) { p.a = std::make_unique<Arr>(v); }); }, [vc](MPool const&) { return vc; }});
		add({"a=+src." + vi.name, "a=+view", "C04", F_ALLOC_UNSPEC, model_assign, [k](Pool& p) { with_view(p, g_views[k], false, [&](auto&& v) { *p.a = +v; }); }, [vc](MPool const&) { return vc; }});
		if(vi.const_safe) {
			add({"a=as_const(src)." + vi.name, "a=const-view", "C04", F_SAME_EXT_NO_ALLOC | F_ALLOC_UNSPEC, model_assign, [k](Pool& p) { with_view(p, g_views[k], true, [&](auto&& v) { *p.a = v; }); }, [vc](MPool const&) { return vc; }});
		}
	}
	{
		auto ss = src_shape();
		auto model = [ss](MPool& m) { m.a.ext = ss; m.a.v.clear(); for(idx i = 0; i < prod(ss); ++i) { m.a.v.push_back(static_cast<int>(700 + i)); } return true; };
		add({"a=array<short>", "a=array<other element type>", "C04", F_SAME_EXT_NO_ALLOC | F_ALLOC_UNSPEC, model, [](Pool& p) { *p.a = p.ss; }, {}});
		add({"a=Arr(array<short>)", "construct(array<other element type>)", "C04", F_NONE, [model](MPool& m) { model(m); m.a.alloc = 0; return true; }, [](Pool& p) { p.a = std::make_unique<Arr>(p.ss); }, {}});
		if(D >= 2) {
			std::vector<idx> rs(ss); std::rotate(rs.begin(), rs.begin() + 1, rs.end());
			add({"a=array<short>.rotated()", "a=view<other element type>", "C04", F_SAME_EXT_NO_ALLOC | F_ALLOC_UNSPEC,
				[ss, rs](MPool& m) {
					m.a.ext = rs; m.a.v.clear();
					vm::MView mv = vm::root_model(ss); vm::m_apply(mv, vm::mk(vm::ROTATED));
					vm::for_each_index(mv, [&](std::vector<idx> const&, idx off) { m.a.v.push_back(static_cast<int>(700 + off)); });
					return true; },
				[](Pool& p) { *p.a = p.ss.rotated(); }, {}});
		}
	}
}

// ---------- one transition on the real implementation ----------

static void make_pool(Pool& p) {
	auto ss = src_shape();
	p.src = multi::array<int, D>(X(ss)); for(idx i = 0; i < p.src.num_elements(); ++i) { p.src.data_elements()[i] = static_cast<int>(300 + i); }
	p.ss = multi::array<short, D>(X(ss)); for(idx i = 0; i < p.ss.num_elements(); ++i) { p.ss.data_elements()[i] = static_cast<short>(700 + i); }
	p.a = std::make_unique<Arr>(); p.b = std::make_unique<Arr>();
}

static Outcome run_transition(std::vector<int> const& hist, int op, MPool const& before, MPool const& after) {
	Outcome out;
	W.reset();
#ifdef HM_RECYCLE
	W.recycle = true;
#endif
#ifdef HM_FANCY
	fancy::g = fancy::Stats{};
#endif
	{
		Pool p; make_pool(p);
		for(int h : hist) { g_ops[static_cast<std::size_t>(h)].real(p); }
		if(!W.errs.empty()) { out.ok = false; out.oracle = "registry-during-replay:" + W.errs[0]; return out; }
		auto const& od = g_ops[static_cast<std::size_t>(op)];
		long c_copy = W.ncopy, c_move = W.nmove, c_as = W.nassign, c_mas = W.nmassign, c_val = W.nvalue, c_alloc = W.nalloc;
		auto const* data_a = rawp(p.a->data_elements());
		long f0 = W.fault_count;
		od.real(p);
		out.nfault = W.fault_count - f0;
		auto fail = [&](std::string o, std::string d) { if(out.ok) { out.ok = false; out.oracle = std::move(o); out.detail = std::move(d); } };
		if(!W.errs.empty()) { fail("registry:" + W.errs[0], W.errs.size() > 1 ? W.errs[1] : ""); }
		Cmp ca = compare(*p.a, after.a, "a", !(od.flags & F_ALLOC_UNSPEC)); if(!ca.ok) { fail(ca.oracle, ca.detail); }
		if(!after.b_unspecified) { Cmp cb = compare(*p.b, after.b, "b", true); if(!cb.ok) { fail(cb.oracle, cb.detail); } }
		out.alloc_a = p.a->get_allocator().id; out.alloc_b = p.b->get_allocator().id;
		// provenance: the block a slot owns was produced by the allocator the slot reports
		for(auto* sl : {p.a.get(), p.b.get()}) {
			if(sl->num_elements() == 0) { continue; }
			auto it = W.blocks.find(rawp(sl->data_elements()));
			if(it == W.blocks.end()) { fail("storage-not-from-allocator", "data_elements() is not a live block of the ledger"); }
			else if(it->second.id != sl->get_allocator().id) { fail("block-provenance", "slot reports allocator #" + std::to_string(sl->get_allocator().id) + " but owns a block produced by #" + std::to_string(it->second.id)); }
		}
		if(od.flags & F_NO_ELEM_OPS) {
			if(W.ncopy != c_copy || W.nmove != c_move || W.nassign != c_as || W.nmassign != c_mas || W.nvalue != c_val) { fail("copied-or-moved-elements", "element special members ran during a move/swap of resizable arrays"); }
			if(W.nalloc != c_alloc) { fail("allocated", "move/swap of resizable arrays allocated"); }
		}
		if((od.flags & F_NEVER_ALLOC) && W.nalloc != c_alloc) { fail("allocated", "operation that needs no new storage allocated"); }
		if((od.flags & F_SAME_EXT_NO_ALLOC) && before.a.count() != 0 && before.a.ext == after.a.ext && before.a.count() == after.a.count() && before.a.alloc == after.a.alloc && W.nalloc != c_alloc) { fail("same-extent-assignment-allocated", ""); }
		if((od.flags & F_SELF) && before.a.count() != 0 && rawp(p.a->data_elements()) != data_a) { fail("storage-moved", "data_elements() changed"); }
		if((od.flags & F_KEEP_DATA_IF_SAME) && before.a.count() != 0 && before.a.ext == after.a.ext && rawp(p.a->data_elements()) != data_a) { fail("reextent-to-same-extents-moved-storage", ""); }
		// pairwise disjoint storage
		auto rng = [](auto const& arr) { return std::make_pair(reinterpret_cast<char const*>(rawp(arr.data_elements())), reinterpret_cast<char const*>(rawp(arr.data_elements()) + arr.num_elements())); };
		auto ov = [](std::pair<char const*, char const*> x, std::pair<char const*, char const*> y) { return x.first != x.second && y.first != y.second && x.first < y.second && y.first < x.second; };
		if(ov(rng(*p.a), rng(*p.b)) || ov(rng(*p.a), rng(p.src)) || ov(rng(*p.b), rng(p.src))) { fail("shared-storage", "two arrays of the pool overlap in memory"); }
		out.strides = hidden_of(*p.a) + "/" + hidden_of(*p.b);
	}
#ifdef HM_FANCY
	if(out.ok && (fancy::g.oob_deref || fancy::g.null_deref || fancy::g.null_arith)) { out.ok = false; out.oracle = fancy::g.oob_deref ? "fancy-pointer:dereference-outside-storage" : "fancy-pointer:null-pointer-use"; out.detail = fancy::g.first; }
#endif
	if(out.ok) {
		if(!W.errs.empty()) { out.ok = false; out.oracle = "registry-at-destruction:" + W.errs[0]; }
		else if(!W.blocks.empty()) { out.ok = false; out.oracle = "leak-block"; out.detail = std::to_string(W.blocks.size()) + " block(s) outstanding after the pool died"; }
		else if(!W.alive.empty()) { out.ok = false; out.oracle = "leak-element"; out.detail = std::to_string(W.alive.size()) + " element(s) never destroyed"; }
	}
	return out;
}

// ---------- C09: one transition with the k-th fault opportunity inside the operation armed ----------
static char const* const kind_name[] = {"alloc", "elem-ctor", "elem-assign"};
static Outcome run_fault(std::vector<int> const& hist, int op, long k) {
	Outcome out;
	W.reset();
	auto fail = [&](std::string o, std::string d) { if(out.ok) { out.ok = false; out.oracle = std::move(o); out.detail = std::move(d); } };
	int kind = -1;
	{
		Pool p; make_pool(p);
		for(int h : hist) { g_ops[static_cast<std::size_t>(h)].real(p); }
		Arr known(X(shape_menu(false)[2]), T(5));  // built before arming; used by the validity probe
		auto const& od = g_ops[static_cast<std::size_t>(op)];
		bool thrown = false;
		W.fault_at = W.fault_count + k;
		try { od.real(p); } catch(instr::Injected const& e) { thrown = true; kind = e.what; }
		W.fault_at = -1;
		kind = W.fault_kind_hit;
		std::string kn = kind >= 0 ? kind_name[kind] : "none";
		out.strides = kn;  // transports the fault kind back to the parent
		if(kind < 0) { out.strides = "not-reached"; return out; }
		if(!thrown) { fail("swallowed", "the injected exception did not reach the caller"); }
		if(!W.errs.empty()) { fail("registry:" + W.errs[0], W.errs.size() > 1 ? W.errs[1] : ""); }
		// consistency between extents and live elements / owned blocks
		long owned_blocks = 0, expected_alive = known.num_elements();
		for(auto* sl : {p.a.get(), p.b.get()}) {
			auto n = sl->num_elements();
			if(n == 0) { continue; }
			++owned_blocks; expected_alive += n;
			auto it = W.blocks.find(rawp(sl->data_elements()));
			if(it == W.blocks.end()) { fail("invalid-after:storage", "a slot reports elements but owns no live block"); continue; }
			if(static_cast<long>(it->second.n) != n) { fail("invalid-after:extents-vs-block", "extents say " + std::to_string(n) + " elements, block has " + std::to_string(it->second.n)); }
#if HM_ELEM == 0
			for(idx i = 0; i < n; ++i) { if(!W.alive.count(rawp(sl->data_elements()) + i)) { fail("invalid-after:dead-element", "element " + std::to_string(i) + " of a slot is not alive"); break; } }
#endif
		}
		++owned_blocks;  // `known`
		if(static_cast<long>(W.blocks.size()) != owned_blocks) { fail("leak-block", std::to_string(W.blocks.size()) + " blocks outstanding, " + std::to_string(owned_blocks) + " owned by arrays, right after the failed operation"); }
#if HM_ELEM == 0
		if(static_cast<long>(W.alive.size()) != expected_alive) { fail(static_cast<long>(W.alive.size()) > expected_alive ? "leak-element" : "invalid-after:dead-element", std::to_string(W.alive.size()) + " live elements, " + std::to_string(expected_alive) + " expected from the extents"); }
#endif
		// assignable + equal afterwards (only if still consistent: otherwise the destructor is the probe)
		if(out.ok) {
			W.count_faults = false;
			*p.a = known; *p.b = known;
			MArr mk = m_fresh(shape_menu(false)[2], 0, [](idx) { return 5; });
			Cmp ca = compare(*p.a, mk, "a", false), cb = compare(*p.b, mk, "b", false);
			if(!ca.ok) { fail("invalid-after:assign", ca.detail); } if(!cb.ok) { fail("invalid-after:assign", cb.detail); }
			if(!W.errs.empty()) { fail("registry-after:" + W.errs[0], ""); }
			W.count_faults = true;
		}
	}
	if(!W.errs.empty()) { fail("registry-at-destruction:" + W.errs[0], ""); }
	else if(!W.blocks.empty()) { fail("leak-block", std::to_string(W.blocks.size()) + " block(s) outstanding after the pool died"); }
	else if(!W.alive.empty()) { fail("leak-element", std::to_string(W.alive.size()) + " element(s) never destroyed"); }
	return out;
}

static std::string hist_str(std::vector<int> const& h) { std::string s; for(std::size_t i = 0; i < h.size(); ++i) { s += (i ? " ; " : ""); s += g_ops[static_cast<std::size_t>(h[i])].name; } return s; }
static std::string hist_ids(std::vector<int> const& h) { std::string s; for(std::size_t i = 0; i < h.size(); ++i) { s += (i ? "," : ""); s += std::to_string(h[i]); } return s; }

static bool is_monitor_oracle(std::string const& o) { return o.rfind("registry", 0) == 0 || o.rfind("leak", 0) == 0; }
static bool is_alloc_oracle(std::string const& o) { return o == "allocator-id" || o == "block-provenance" || o == "storage-not-from-allocator" || o.find("unequal-allocator") != std::string::npos; }

int main(int argc, char** argv) {
	mc::Args args(argc, argv);
	bool thorough = args.get("tier", "quick") == "thorough";
	int maxdepth = static_cast<int>(args.geti("depth", thorough ? 4 : 3));
	long max_states = args.geti("max_states", 400000);
	std::string prop = args.get("prop", "all");
	bool fault_mode = args.get("mode", "") == "fault";
	long fault_runs = 0, fault_nontrivial = 0;
	mc::set_deadline(static_cast<double>(args.geti("deadline", 3000)));
	init_views(); build_ops(thorough);
	std::string tag = "D" + std::to_string(D) + "|" + ELEM;
	std::string cfgid = std::string("histmc D=") + std::to_string(D) + " elem=" + ELEM +
#ifdef HM_FANCY
		" pointer=fancy::ptr" +
#endif
#ifdef HM_RECYCLE
		" allocator-addresses=recycled(LIFO per size)" +
#endif
 (ALLOC_MODE ? std::string(" traits{pocca=") + (Tr::pocca ? "1" : "0") + ",pocma=" + (Tr::pocma ? "1" : "0") + ",pocs=" + (Tr::pocs ? "1" : "0") + ",soccc_fresh=" + (Tr::soccc_fresh ? "1" : "0") + "}" : std::string());
	if(ALLOC_MODE) { tag += std::string("|ca") + (Tr::pocca ? "1" : "0") + "ma" + (Tr::pocma ? "1" : "0") + "s" + (Tr::pocs ? "1" : "0") + (Tr::soccc_fresh ? "f" : ""); }

	auto model_run = [&](std::vector<int> const& h, MPool& m) { m = MPool{}; m.a.ext.assign(static_cast<std::size_t>(D), 0); m.b.ext = m.a.ext; for(int o : h) { if(!g_ops[static_cast<std::size_t>(o)].model(m)) { return false; } } return true; };

	if(args.has("replay")) {  // --replay=<tier>:<id,id,...>  (ids index this binary's op table for the given tier)
		std::string r = args.get("replay"); auto c = r.find(':'); std::string ids = r.substr(c + 1);
		if(r.substr(0, c) == "thorough" && !thorough) { g_ops.clear(); build_ops(true); }
		long fk = -1; { auto at = ids.find('@'); if(at != std::string::npos) { fk = std::atol(ids.c_str() + at + 1); ids = ids.substr(0, at); } }
		std::vector<int> h; { std::string cur; for(char ch : ids + ",") { if(ch == ',') { if(!cur.empty()) { h.push_back(std::atoi(cur.c_str())); } cur.clear(); } else { cur += ch; } } }
		if(h.empty()) { return 2; }
		int op = h.back(); h.pop_back();
		MPool before, after; if(!model_run(h, before)) { std::printf("REPLAY history not enabled\n"); return 2; }
		after = before; if(!g_ops[static_cast<std::size_t>(op)].model(after)) { std::printf("REPLAY op not enabled\n"); return 2; }
		std::printf("history: %s ; THEN %s\n", hist_str(h).c_str(), g_ops[static_cast<std::size_t>(op)].name.c_str());
		if(fk >= 0) {
			std::printf("history: %s ; THEN %s with fault opportunity #%ld armed\n", hist_str(h).c_str(), g_ops[static_cast<std::size_t>(op)].name.c_str(), fk);
			Outcome fo = run_fault(h, op, fk);
			std::printf("REPLAY %s fault_kind=%s oracle=%s detail=%s\n", fo.ok ? "OK" : "VIOLATION", fo.strides.c_str(), fo.oracle.c_str(), fo.detail.c_str());
			return fo.ok ? 0 : 1;
		}
		Outcome o = run_transition(h, op, before, after);
		std::printf("REPLAY %s oracle=%s detail=%s\n", o.ok ? "OK" : "VIOLATION", o.oracle.c_str(), o.detail.c_str());
		return o.ok ? 0 : 1;
	}

	{
		struct St { std::vector<int> h; MPool m; };
		std::deque<St> fr; std::unordered_set<std::string> seen;
		// --prefix=<op name>;<op name>...  ($k = the k-th shape of the menu): the search starts from the state reached by that history (a non-initial root); the depth bound counts from there
		St s0; std::size_t plen = 0;
		if(args.has("prefix")) {
			std::string spec = args.get("prefix"); auto shapes = shape_menu(thorough);
			for(std::size_t k = 0; k < shapes.size(); ++k) { std::string v = "$" + std::to_string(k); for(auto q = spec.find(v); q != std::string::npos; q = spec.find(v)) { spec.replace(q, v.size(), ext_str(shapes[k])); } }
			std::string cur; for(char ch : spec + ";") { if(ch != ';') { cur += ch; continue; } int found = -1; for(std::size_t oi = 0; oi < g_ops.size(); ++oi) { if(g_ops[oi].name == cur) { found = static_cast<int>(oi); break; } } if(found < 0) { std::fprintf(stderr, "unknown prefix op '%s'\n", cur.c_str()); return 2; } s0.h.push_back(found); cur.clear(); }
			plen = s0.h.size(); cfgid += " start-state{" + hist_str(s0.h) + "}";
		}
		if(!model_run(s0.h, s0.m)) { std::fprintf(stderr, "prefix not enabled\n"); return 2; }
		fr.push_back(s0); seen.insert(key_of(s0.m));
		long states = 1, transitions = 0, changed = 0; int completed = -1, cur = 0; bool capped = false;
		while(!fr.empty()) {
			St st = std::move(fr.front()); fr.pop_front();
			int depth = static_cast<int>(st.h.size() - plen);
			if(depth > cur) { completed = cur; cur = depth; }
			if(depth >= maxdepth) { continue; }
			if(mc::past_deadline() || states > max_states) { capped = true; break; }
			// enabled transitions of this state, executed as one isolated batch
			struct Tr { int oi; MPool m2; };
			std::vector<Tr> trs;
			for(int oi = 0; oi < static_cast<int>(g_ops.size()); ++oi) { MPool m2 = st.m; if(g_ops[static_cast<std::size_t>(oi)].model(m2)) { trs.push_back(Tr{oi, std::move(m2)}); } }
			auto outs = isolated(static_cast<int>(trs.size()), [&](int i) { return run_transition(st.h, trs[static_cast<std::size_t>(i)].oi, st.m, trs[static_cast<std::size_t>(i)].m2); });
			if(fault_mode) {
				struct FI { std::size_t ti; long k; };
				std::vector<FI> items;
				for(std::size_t ti = 0; ti < trs.size(); ++ti) { if(outs[ti].crashed) { continue; } for(long k = 0; k < outs[ti].nfault; ++k) { items.push_back(FI{ti, k}); } }
				auto fouts = isolated(static_cast<int>(items.size()), [&](int i) { auto const& it = items[static_cast<std::size_t>(i)]; return run_fault(st.h, trs[it.ti].oi, it.k); });
				for(std::size_t i = 0; i < items.size(); ++i) {
					auto const& it = items[i]; auto const& fo = fouts[i]; auto const& od = g_ops[static_cast<std::size_t>(trs[it.ti].oi)];
					++fault_runs;
					if(fo.ok) { if(fo.strides != "not-reached") { ++fault_nontrivial; } continue; }
					std::vector<int> h2 = st.h; h2.push_back(trs[it.ti].oi);
					std::string rp = std::string(thorough ? "thorough:" : "quick:") + hist_ids(h2) + "@" + std::to_string(it.k);
					std::string kind = fo.crashed ? "any" : fo.strides;
					std::string sym = fo.crashed ? (fo.detail.find("terminate called") != std::string::npos ? std::string("terminate") : fo.oracle) : fo.oracle.substr(0, fo.oracle.find('('));
					if(prop == "all" || prop == "C09") {
						mc::R.violation(std::string(ELEM) + "|" + od.cls + "|" + kind + "|" + sym,
							mc::J().s("harness", "histmc").s("config", cfgid + " mode=fault").s("replay", rp).s("history", hist_str(st.h)).s("op", od.name).n("fault_index", it.k).s("fault_kind", kind).s("oracle", fo.oracle).s("detail", fo.detail).str());
					}
				}
			}
			for(std::size_t ti = 0; ti < trs.size(); ++ti) {
				int oi = trs[ti].oi; auto const& od = g_ops[static_cast<std::size_t>(oi)]; MPool& m2 = trs[ti].m2; Outcome const& o = outs[ti];
				std::vector<int> h2 = st.h; h2.push_back(oi);
				std::string rp = std::string(thorough ? "thorough:" : "quick:") + hist_ids(h2);
				++transitions;
				std::string cls = od.cls + (od.cls_fn ? "[" + od.cls_fn(st.m) + "]" : "");
				if(key_of(m2) != key_of(st.m)) { ++changed; }
				if(od.flags & F_ALLOC_UNSPEC) { m2.a.alloc = o.alloc_a; }
				if(!o.ok) {
					bool monitor = is_monitor_oracle(o.oracle);
					std::string owner = monitor ? "C08" : od.prop;
					if(o.oracle == "allocated" || o.oracle == "same-extent-assignment-allocated") { owner = "C09"; }
					bool mine = prop == "all" || prop == owner || (prop == "C06" && owner == "C17") || (prop == "C10" && (is_alloc_oracle(o.oracle) || !monitor)) || (prop == "C08" && monitor);
					if(mine) {
						mc::R.violation(tag + "|" + cls + "|" + o.oracle.substr(0, o.oracle.find('(')),
							mc::J().s("harness", "histmc").s("config", cfgid).s("replay", rp).s("history", hist_str(st.h)).s("op", od.name).s("oracle", o.oracle).s("detail", o.detail).s("model_before", key_of(st.m)).s("model_after", key_of(m2)).str());
					}
					continue;  // violating transitions are not expanded
				}
				if(m2.b_unspecified) { continue; }  // source of an element-wise move: valid but unspecified, not continued
				std::string k = key_of(m2) + "~" + o.strides;
				if(seen.insert(k).second) {
					++states;
					if(mc::R.samples.size() < 3 && h2.size() == 3 + plen && (states % 37) == 0) { mc::R.sample(mc::J().s("config", cfgid).s("history", hist_str(h2)).s("model_state", key_of(m2)).str()); }
					fr.push_back(St{std::move(h2), std::move(m2)});
				}
			}
		}
		if(!capped) { completed = maxdepth; }
		mc::R.add("states", states); mc::R.add("transitions", transitions); mc::R.add("distinct_nontrivial", fault_mode ? fault_nontrivial : changed);
		if(fault_mode) { mc::R.add("evaluations", fault_runs); mc::R.add("fault_placements", fault_runs); }
		if(capped) { mc::R.exhaustive = false; }
		mc::R.note(cfgid + ": alphabet=" + std::to_string(g_ops.size()) + " ops, completed_depth=" + std::to_string(completed) + " states=" + std::to_string(states) + " transitions=" + std::to_string(transitions) + (capped ? " CAPPED" : ""));
		mc::R.emit(stdout);
	}
	return 0;
}
