// C05 (move clause) — element type whose move is observable (moved-from marker).  All ordered pairs (destination view, source view) of equal extents from
// the E1 state sets of two roots x forms: plain/rvalue view assignment (views are reference-like: the source must stay untouched) and the explicit
// element_moved() forms (exactly the viewed source elements are moved from, nothing else is touched).
#include "../engine/view_model.hpp"
#include "../engine/view_oracle.hpp"

#include <map>

using namespace vm;

struct Mv {
	int v = 0;
	Mv() = default;
	Mv(int x) : v(x) {}  // NOLINT
	Mv(Mv const&) = default;
	Mv(Mv&& o) noexcept : v(o.v) { o.v = -1; }
	Mv& operator=(Mv const&) = default;
	Mv& operator=(Mv&& o) noexcept { v = o.v; o.v = -1; return *this; }
	friend bool operator==(Mv const& a, Mv const& b) { return a.v == b.v; }
	friend bool operator!=(Mv const& a, Mv const& b) { return a.v != b.v; }
};

enum Form { M_COPY, M_RVALUE_VIEW, M_RVALUE_BOTH, M_ELEMENT_MOVED, M_ELEMENTS_OF_MOVED, M_COPY_FROM_MOVED_ITERATORS, M_ARRAY_FROM_MOVED, M_COPY_BACKWARD_FROM_MOVED, M_REVERSE_ITERATORS_OF_MOVED, NFORMS };
static char const* const fname[] = {"dst=src", "dst=<rvalue view>", "std::move(dst)=<rvalue view>", "dst=src.element_moved()", "dst.elements()=src.element_moved().elements()",
	"std::copy(src.element_moved().begin(),end,dst.begin())", "array(src.element_moved())",
	"std::copy_backward(src.element_moved().begin(),end,dst.end())", "std::copy(reverse iterators of src.element_moved(), reverse iterators of dst)"};
static bool moves(int f) { return f >= M_ELEMENT_MOVED; }

struct Saved { Hist h; MView m; };
static long g_runs = 0, g_pairs = 0, g_nontrivial = 0;

template<int D>
void run_pairs(std::vector<idx> const& sizes, Config const& cfg) {
	idx N = 1; for(auto s : sizes) { N *= s; }
	std::vector<Mv> b1(static_cast<std::size_t>(N + 8)), b2(static_cast<std::size_t>(N + 8));
	auto exts = vo::make_extensions<D>(sizes);
	multi::array_ref<Mv, D> r1(exts, b1.data() + 4), r2(exts, b2.data() + 4);
	std::vector<Saved> saved; std::set<std::string> noskip;
	std::string px; for(std::size_t i = 0; i < sizes.size(); ++i) { px += (i ? "x" : "") + std::to_string(sizes[i]); }
	auto st = bfs(r1, root_model(sizes), cfg, noskip, [&](auto&& v, MView const& m, Hist const& h) -> bool { if(v.num_elements() != m.num_elements()) { return false; } saved.push_back(Saved{h, m}); return true; }, px + "/");
	mc::R.add("states", st.states); mc::R.add("transitions", st.transitions);
	std::map<std::string, std::vector<std::size_t>> groups;
	for(std::size_t i = 0; i < saved.size(); ++i) { std::string k = std::to_string(saved[i].m.rank()) + ":"; for(auto const& d : saved[i].m.d) { k += std::to_string(d.size) + ","; } groups[k].push_back(i); }
	auto reset = [&] { for(idx i = -4; i < N + 4; ++i) { b1[static_cast<std::size_t>(i + 4)] = Mv(static_cast<int>(1000 + i)); b2[static_cast<std::size_t>(i + 4)] = Mv(static_cast<int>(2000 + i)); } };
	for(auto const& [sig, mem] : groups) { for(auto di : mem) { for(auto si : mem) {
		auto const& d = saved[di]; auto const& s = saved[si];
		if(d.m.ro || s.m.ro || d.m.has_empty_dim()) { continue; }
		if(mc::past_deadline()) { mc::R.exhaustive = false; return; }
		++g_pairs;
		std::vector<idx> od, os; for_each_index(d.m, [&](std::vector<idx> const&, idx off) { od.push_back(off); }); for_each_index(s.m, [&](std::vector<idx> const&, idx off) { os.push_back(off); });
		if(od.size() >= 2) { ++g_nontrivial; }
		for(int f = 0; f < NFORMS; ++f) {
			std::string rp = px + "/" + hist_str(d.h) + "/" + hist_str(s.h) + "/" + std::to_string(f);
			mc::cur_set(std::string("form:") + fname[f], rp);
			reset();
			bool ran = false; std::vector<int> arr_vals;
			walk(r1(), d.h.data(), static_cast<int>(d.h.size()), [&](auto&& dv) { walk(r2(), s.h.data(), static_cast<int>(s.h.size()), [&](auto&& sv) {
				using DV = std::decay_t<decltype(dv)>; using SV = std::decay_t<decltype(sv)>;
				if constexpr(rank_of<DV> == rank_of<SV> && !is_ro_v<DV> && !is_ro_v<SV>) {
					ran = true;
					switch(f) {
						case M_COPY: dv = sv; break;
						case M_RVALUE_VIEW: dv = std::move(sv); break;
						case M_RVALUE_BOTH: std::move(dv) = std::move(sv); break;
						case M_ELEMENT_MOVED: dv = sv.element_moved(); break;
						case M_ELEMENTS_OF_MOVED: dv.elements() = sv.element_moved().elements(); break;
						case M_COPY_FROM_MOVED_ITERATORS: { auto&& mv = sv.element_moved(); std::copy(mv.begin(), mv.end(), dv.begin()); break; }
						case M_COPY_BACKWARD_FROM_MOVED: { auto&& mv = sv.element_moved(); std::copy_backward(mv.begin(), mv.end(), dv.end()); break; }
						case M_REVERSE_ITERATORS_OF_MOVED: { auto&& mv = sv.element_moved(); std::copy(std::make_reverse_iterator(mv.end()), std::make_reverse_iterator(mv.begin()), std::make_reverse_iterator(dv.end())); break; }
						case M_ARRAY_FROM_MOVED: { multi::array<Mv, rank_of<DV>> c(sv.element_moved()); for(idx i = 0; i < c.num_elements(); ++i) { arr_vals.push_back(c.data_elements()[i].v); } break; }
						default: break;
					}
				}
			}); });
			if(!ran) { continue; }
			++g_runs;
			std::string why;
			// destination
			if(f == M_ARRAY_FROM_MOVED) { for(std::size_t k = 0; k < os.size() && why.empty(); ++k) { if(arr_vals.size() != os.size() || arr_vals[k] != static_cast<int>(2000 + os[k])) { why = "array-constructed-from-moved-view-has-wrong-values"; } } }
			else { for(std::size_t k = 0; k < od.size() && why.empty(); ++k) { if(b1[static_cast<std::size_t>(od[k] + 4)].v != static_cast<int>(2000 + os[k])) { why = "destination-values"; } } }
			std::set<idx> ind(od.begin(), od.end()), ins(os.begin(), os.end());
			if(why.empty() && f != M_ARRAY_FROM_MOVED) { for(idx i = -4; i < N + 4 && why.empty(); ++i) { if(!ind.count(i) && b1[static_cast<std::size_t>(i + 4)].v != static_cast<int>(1000 + i)) { why = "wrote-outside-destination-view"; } } }
			if(why.empty() && f == M_ARRAY_FROM_MOVED) { for(idx i = -4; i < N + 4 && why.empty(); ++i) { if(b1[static_cast<std::size_t>(i + 4)].v != static_cast<int>(1000 + i)) { why = "unrelated-buffer-modified"; } } }
			// source
			for(idx i = -4; i < N + 4 && why.empty(); ++i) {
				int got = b2[static_cast<std::size_t>(i + 4)].v; int orig = static_cast<int>(2000 + i);
				if(!ins.count(i)) { if(got != orig) { why = "source-storage-outside-the-source-view-modified"; } }
				else if((f == M_COPY_FROM_MOVED_ITERATORS || f == M_COPY_BACKWARD_FROM_MOVED || f == M_REVERSE_ITERATORS_OF_MOVED) && d.m.rank() >= 2) { if(got != -1 && got != orig) { why = "viewed-source-element-corrupted"; } }   // proxy rows of a moved view: moving is permitted, copying is safe; either is accepted
				else if(moves(f)) { if(got != -1) { why = "viewed-source-element-not-moved-from"; } }
				else if(got != orig) { why = "source-elements-modified-by-a-view-assignment"; }
			}
			if(!why.empty()) {
				mc::R.violation("D" + std::to_string(d.m.rank()) + "|" + fname[f] + "|" + why, mc::J().s("harness", "movemc").s("replay", rp).s("dst_trace", hist_str(d.h)).s("src_trace", hist_str(s.h)).s("form", fname[f]).s("oracle", why).str());
			}
			if(mc::R.samples.size() < 3 && od.size() >= 4 && f == M_ELEMENT_MOVED && (g_pairs % 53) == 0) { mc::R.sample(mc::J().s("root", "array_ref<Mv," + std::to_string(D) + ">{" + px + "}").s("dst_trace", hist_str(d.h)).s("src_trace", hist_str(s.h)).s("forms", "all 9").str()); }
		}
	} } }
	mc::R.note("movemc root {" + px + "}: states=" + std::to_string(saved.size()) + " depth=" + std::to_string(cfg.maxdepth));
}

int main(int argc, char** argv) {
	mc::Args args(argc, argv);
	bool thorough = args.get("tier", "quick") == "thorough";
	Config cfg; cfg.maxdepth = static_cast<int>(args.geti("depth", thorough ? 2 : 1));
	cfg.menu0.call_full = false; cfg.menu0.call_maxargs = 2; cfg.menu.call_full = false; cfg.menu.call_maxargs = 1;
	mc::set_deadline(static_cast<double>(args.geti("deadline", 3000)));
	return mc::supervise([&](std::set<std::string> const&) {
		run_pairs<1>({4}, cfg); run_pairs<2>({2, 3}, cfg); run_pairs<2>({3, 2}, cfg); run_pairs<3>({2, 3, 2}, cfg);
		if(thorough) { run_pairs<2>({4, 2}, cfg); run_pairs<4>({2, 1, 2, 3}, cfg); }
		mc::R.add("evaluations", g_runs); mc::R.add("pairs", g_pairs); mc::R.add("distinct_nontrivial", g_nontrivial);
		mc::R.emit(stdout);
	});
}
