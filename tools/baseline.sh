#!/bin/bash
# Runs the repository's own test-suite (78 tests) with no verification guard defined (none exists: no hooks are used).
set -e
cd /repo
if [ ! -f _build/build.ninja ]; then cmake -G Ninja -B _build -S . -DCMAKE_BUILD_TYPE=RelWithDebInfo -DCMAKE_CXX_FLAGS=-Wno-error >/dev/null; fi
cmake --build _build -j"$(nproc)" 2>&1 | tail -2
OMPI_ALLOW_RUN_AS_ROOT=1 OMPI_ALLOW_RUN_AS_ROOT_CONFIRM=1 ctest --test-dir _build -j8 --timeout 900 2>&1 | tail -5
