// C16 — E3: compile-time exploration of access paths.  State = (real expression type incl. value category, const-taint bit);
// transitions = accessors applied in unevaluated context; template instantiation memoisation is the visited set.
#include <boost/multi/array.hpp>
#include <iostream>
#include <map>
#include <set>
#include <string>
#include <typeinfo>
#include <cxxabi.h>
#include <vector>
#include "../engine/mc_common.hpp"
namespace multi = boost::multi;
template<class T> std::string tname(){ int st; char* d = abi::__cxa_demangle(typeid(T).name(),0,0,&st); std::string s = d?d:typeid(T).name(); free(d);
  if(std::is_const_v<std::remove_reference_t<T>>) s += " const"; if(std::is_lvalue_reference_v<T>) s += "&"; else if(std::is_rvalue_reference_v<T>) s += "&&"; return s; }
template<class X, class=void> struct rank_of : std::integral_constant<long,-1> {}; template<class X> struct rank_of<X, std::void_t<decltype(std::decay_t<X>::rank_v)>> : std::integral_constant<long, std::decay_t<X>::rank_v> {};
template<class P, multi::dimensionality_type D, class S> struct rank_of<multi::cursor_t<P,D,S>, void> : std::integral_constant<long, D> {};
template<class P, multi::dimensionality_type D, class S> struct rank_of<multi::cursor_t<P,D,S>&, void> : std::integral_constant<long, D> {};
template<class P, multi::dimensionality_type D, class S> struct rank_of<multi::cursor_t<P,D,S> const&, void> : std::integral_constant<long, D> {};
template<class P, multi::dimensionality_type D, class S> struct rank_of<multi::cursor_t<P,D,S>&&, void> : std::integral_constant<long, D> {};
#define ACCG(NAME, EXPR, TAINTS, MINRANK) struct NAME { static constexpr char const* name = #NAME; static constexpr bool taints = TAINTS; template<class X, std::enable_if_t<(rank_of<X>::value >= MINRANK) || (rank_of<X>::value < 0 && MINRANK == 0), int> =0> auto operator()(X&& x) const -> decltype(EXPR); };
#define ACC(NAME, EXPR, TAINTS) ACCG(NAME, EXPR, TAINTS, 0)
ACC(idx0,      std::forward<X>(x)[0], false)
ACC(call0,     std::forward<X>(x)(0), false)
ACC(callall,   std::forward<X>(x)(multi::_), false)
ACC(callrng,   std::forward<X>(x)(multi::irange{0,1}), false)
ACC(paren,     std::forward<X>(x)(), false)
ACC(begin_,    std::forward<X>(x).begin(), false)
ACC(end_,      std::forward<X>(x).end(), false)
ACC(cbegin_,   std::forward<X>(x).cbegin(), true)
ACC(deref,     *std::forward<X>(x), false)
ACC(elements_, std::forward<X>(x).elements(), false)
ACC(home_,     std::forward<X>(x).home(), false)
ACC(front_,    std::forward<X>(x).front(), false)
ACC(back_,     std::forward<X>(x).back(), false)
ACC(rotated_,  std::forward<X>(x).rotated(), false)
ACC(unrotated_,std::forward<X>(x).unrotated(), false)
ACCG(transposed_, std::forward<X>(x).transposed(), false, 2)
ACC(sliced_,   std::forward<X>(x).sliced(0,1), false)
ACCG(diagonal_, std::forward<X>(x).diagonal(), false, 2)
ACC(partitioned_, std::forward<X>(x).partitioned(1), false)
ACCG(flatted_,  std::forward<X>(x).flatted(), false, 2)
struct asconst_ { static constexpr char const* name="asconst_"; static constexpr bool taints=true; template<class X, class = decltype(std::declval<X>().extensions())> auto operator()(X&& x) const -> decltype(std::as_const(x)); };
ACC(plus0,     std::forward<X>(x) + 0, false)

ACC(end_idx,   std::forward<X>(x).end()[-1], false)
ACC(cend_,     std::forward<X>(x).cend(), true)
ACC(elems_begin, std::forward<X>(x).elements().begin(), false)
ACC(elems_idx,   std::forward<X>(x).elements()[0], false)
ACC(unrot2,    std::forward<X>(x).unrotated(), false)
ACC(strided_,  std::forward<X>(x).strided(1), false)
ACC(taked_,    std::forward<X>(x).taked(1), false)
ACC(dropped_,  std::forward<X>(x).dropped(0), false)
ACC(reversed_, std::forward<X>(x).reversed(), false)
ACC(chunked_,  std::forward<X>(x).chunked(1), false)
ACCG(tilde_,    ~std::forward<X>(x), false, 2)
ACC(move_,     std::move(x), false)
ACCG(call00,    std::forward<X>(x)(0,0), false, 2)
ACCG(callr0,    std::forward<X>(x)(multi::_, 0), false, 2)
ACC(base_acc,  std::forward<X>(x).base(), false)
ACC(data_acc,  std::forward<X>(x).data_elements(), false)
ACC(arrow_,    std::forward<X>(x).operator->(), false)
ACC(as_const_m, std::forward<X>(x).as_const(), true)


ACC(cbegin_idx, std::forward<X>(x).cbegin()[0], true)
ACC(celements_, std::forward<X>(x).celements(), true)
ACC(elems_front, std::forward<X>(x).elements().front(), false)
ACC(elems_back,  std::forward<X>(x).elements().back(), false)
ACC(it_plus,   std::forward<X>(x).begin() + 0, false)
ACC(it_idx,    std::forward<X>(x).begin()[0], false)
ACC(it_arrow_front, std::forward<X>(x).begin()->front(), false)
ACC(home_idx,  std::forward<X>(x).home()[0], false)
ACCG(decay_,    +std::forward<X>(x), false, 1)

template<class A, class X, class=void> struct applies : std::false_type { using type = void; };
template<class A, class X> struct applies<A, X, std::void_t<decltype(std::declval<A>()(std::declval<X>()))>> : std::true_type { using type = decltype(std::declval<A>()(std::declval<X>())); };

// ---- is a view/array expression modifiable as a whole?
template<class X, class=void> struct can_assign_same : std::false_type {}; template<class X> struct can_assign_same<X, std::void_t<decltype(std::declval<X>() = std::declval<std::remove_reference_t<X> const&>())>> : std::true_type {};
template<class X, class=void> struct can_fill : std::false_type {};   // probed for D==1 only: for D>1 the body of fill is instantiated inside decltype and is a hard error for probe types
template<class X> struct can_fill<X, std::void_t<decltype(std::declval<X>().fill(std::declval<typename std::decay_t<X>::element_type const&>()))>> : std::true_type {};
template<class X, class=void> struct can_elements_assign : std::false_type {}; template<class X> struct can_elements_assign<X, std::void_t<decltype(std::declval<X>().elements() = std::declval<X>().elements())>> : std::true_type {};
template<class X, class=void> struct can_swap : std::false_type {}; template<class X> struct can_swap<X, std::void_t<decltype(swap(std::declval<X>(), std::declval<X>()))>> : std::true_type {};
template<class X, class=void> struct can_member_swap : std::false_type {}; template<class X> struct can_member_swap<X, std::void_t<decltype(std::declval<X>().swap(std::declval<X>()))>> : std::true_type {};
template<class X, class=void> struct can_assign_array : std::false_type {}; template<class X> struct can_assign_array<X, std::void_t<decltype(std::declval<X>() = std::declval<multi::array<int, std::decay_t<X>::rank_v> const&>())>> : std::true_type {};
template<class X, class=void> struct is_viewlike : std::false_type {}; template<class X> struct is_viewlike<X, std::void_t<decltype(std::declval<X>().extensions()), decltype(std::decay_t<X>::rank_v)>> : std::true_type {};
template<class X, class=void> struct is_owning : std::false_type {}; template<class X> struct is_owning<X, std::void_t<decltype(std::declval<std::decay_t<X>&>().get_allocator())>> : std::true_type {};

struct Node { std::string type; bool taint; bool is_elem; bool writable; bool is_view; std::string view_mod; };
struct Edge { std::string from; bool ftaint; std::string acc; std::string to; bool ttaint; };
static std::map<std::pair<std::string,bool>, Node> nodes; static std::vector<Edge> edges;
template<class... As> struct AccList {};
using ALL = AccList<idx0,call0,callall,callrng,paren,begin_,end_,cbegin_,cend_,deref,elements_,celements_,elems_begin,elems_idx,elems_front,elems_back,home_,home_idx,front_,back_,rotated_,unrotated_,transposed_,sliced_,strided_,taked_,dropped_,reversed_,chunked_,diagonal_,partitioned_,flatted_,asconst_,as_const_m,plus0,it_plus,it_idx,it_arrow_front,cbegin_idx,tilde_,move_,call00,callr0,base_acc,data_acc,arrow_,end_idx,decay_>;
template<class X, bool Taint, int Depth> struct Explore {
  static bool run() { static bool done = false; if(done) return true; done = true;
    using V = std::remove_cv_t<std::remove_reference_t<X>>;
    bool is_elem = std::is_same_v<V,int> || std::is_same_v<V,int*> || std::is_same_v<V,int const*>;
    bool writable = std::is_same_v<V,int> ? (std::is_assignable_v<X,int> || (std::is_rvalue_reference_v<X> && !std::is_const_v<std::remove_reference_t<X>>)) : std::is_same_v<V,int*>;
    std::string vm;
    bool is_view = false;
    if constexpr(is_viewlike<X>::value) {
      is_view = true;
      if(can_assign_same<X>::value) vm += "assign-from-same-type;";
      if(can_assign_array<X>::value) vm += "assign-from-array;";
      // fill() is not probed: on read-only view types its declaration is viable and only its body fails to compile (a hard error, not detectable by SFINAE)
      if(can_elements_assign<X>::value) vm += "elements()=;";
      if(can_swap<X>::value) vm += "swap;";
      if(can_member_swap<X>::value) vm += "member-swap;";
    }
    auto& n = nodes[{tname<X>(),Taint}]; n = Node{tname<X>(),Taint,is_elem,writable,is_view,vm};
    if constexpr(Depth>0 && !std::is_same_v<V,int> && !std::is_pointer_v<V>) step(ALL{});
    return true; }
  template<class... As> static void step(AccList<As...>) { (one<As>(), ...); }
  template<class A> static void one() { if constexpr(applies<A,X>::value) { using Y = typename applies<A,X>::type; if constexpr(!std::is_void_v<Y>) {
      // decay (+x) makes an independent mutable copy: taint is cleared, it is a new root
      constexpr bool T2 = std::is_same_v<A, decay_> ? false : (Taint || A::taints);
      edges.push_back({tname<X>(),Taint,A::name,tname<Y>(),T2}); Explore<Y,T2,Depth-1>::run(); } } }
};

struct P { template<class X> static auto re(X&& x) -> decltype(x.reextent(std::declval<multi::extensions_t<std::decay_t<X>::rank_v>>()), std::true_type{}); static std::false_type re(...);
	template<class X> static auto cl(X&& x) -> decltype(x.clear(), std::true_type{}); static std::false_type cl(...); };

#ifndef TM_DEPTH
#define TM_DEPTH 3
#endif
#ifndef TM_D
#define TM_D 2
#endif

static std::string shorten(std::string s) {
	auto rep = [&](std::string const& a, std::string const& b) { for(std::size_t p = 0; (p = s.find(a, p)) != std::string::npos; p += b.size()) { s.replace(p, a.size(), b); } };
	rep("boost::multi::", ""); rep(", std::allocator<int> ", ""); rep("std::allocator<int>", "A"); rep("layout_t<1l, long>", "L1"); rep("layout_t<2l, long>", "L2"); rep("layout_t<3l, long>", "L3"); rep("layout_t<4l, long>", "L4"); rep("layout_t<0l, long>", "L0");
	rep("detail::tuple<long, detail::tuple<> >", "T1"); rep(" >", ">");
	return s;
}

int main(int argc, char** argv) {
	mc::Args args(argc, argv);
	constexpr int DEPTH = TM_DEPTH; constexpr int DD = TM_D;
	Explore<multi::array<int,DD>&, false, DEPTH>::run(); Explore<multi::array<int,DD> const&, true, DEPTH>::run();
	Explore<multi::array_ref<int,DD>&, false, DEPTH>::run(); Explore<multi::array_ref<int,DD> const&, true, DEPTH>::run();
	Explore<multi::subarray<int,DD>&&, false, DEPTH>::run(); Explore<multi::subarray<int,DD>&, false, DEPTH>::run(); Explore<multi::subarray<int,DD> const&, true, DEPTH>::run();
	Explore<multi::static_array<int,DD>&, false, DEPTH>::run(); Explore<multi::static_array<int,DD> const&, true, DEPTH>::run();
	Explore<multi::array<int,DD>&&, false, DEPTH>::run();

	std::set<std::string> const_roots = {tname<multi::array<int,DD> const&>(), tname<multi::array_ref<int,DD> const&>(), tname<multi::subarray<int,DD> const&>(), tname<multi::static_array<int,DD> const&>()};
	// shortest witness path to a node (BFS over recorded edges from the roots)
	std::map<std::pair<std::string,bool>, Edge const*> pred; std::vector<std::pair<std::string,bool>> q;
	{ std::set<std::pair<std::string,bool>> roots; for(auto& e : edges) { roots.insert({e.from, e.ftaint}); } for(auto& e : edges) { roots.erase({e.to, e.ttaint}); }
	  // roots may also be reachable from other roots (e.g. subarray& from array&): force the declared roots
	  for(auto const& r : roots) { q.push_back(r); pred[r] = nullptr; }
	  for(std::size_t i = 0; i < q.size(); ++i) { for(auto& e : edges) { if(e.from == q[i].first && e.ftaint == q[i].second) { std::pair<std::string,bool> k{e.to, e.ttaint}; if(!pred.count(k)) { pred[k] = &e; q.push_back(k); } } } } }
	auto path_to = [&](std::string const& t, bool taint) { std::vector<std::string> p; std::pair<std::string,bool> k{t, taint}; int guard = 0; while(pred.count(k) && pred[k] && guard++ < 10) { p.push_back("." + pred[k]->acc); k = {pred[k]->from, pred[k]->ftaint}; } std::string s = shorten(k.first); for(auto it = p.rbegin(); it != p.rend(); ++it) { s += *it; } return s; };

	long elem_nodes = 0, tainted_nodes = 0;
	for(auto& [k, n] : nodes) { if(n.taint) { ++tainted_nodes; } if(n.is_elem) { ++elem_nodes; } }
	// CanonW(node): a modifiable element reference/pointer is reachable from the node using only the canonical element accessors
	// ([0], *, (0), (0,0), home()[0], elements()[0], begin()[0]).  It says what the node's own type lets you do.
	std::set<std::string> canon = {"idx0", "deref", "call0", "call00", "home_idx", "elems_idx", "it_idx"};
	using NK = std::pair<std::string, bool>;
	std::map<NK, bool> CW, evidence;  // evidence: the node is an element node or has at least one canonical out-edge
	for(auto& [k, n] : nodes) { CW[k] = n.is_elem && n.writable; evidence[k] = n.is_elem; }
	for(auto& e : edges) { if(canon.count(e.acc)) { evidence[{e.from, e.ftaint}] = true; } }
	{ bool ch = true; while(ch) { ch = false; for(auto& e : edges) { if(canon.count(e.acc) && CW[{e.to, e.ttaint}] && !CW[{e.from, e.ftaint}]) { CW[{e.from, e.ftaint}] = true; ch = true; } } } }
	auto decay_name = [](std::string t) { while(!t.empty() && (t.back() == '&' || t.back() == ' ')) { t.pop_back(); } auto c = t.rfind(" const"); if(c != std::string::npos && c + 6 == t.size()) { t = t.substr(0, c); } return t; };
	// ---- safety: nothing reachable through a const path is modifiable.  Culprit = tainted edge from a node whose own type is read-only (or a const root)
	// to a node through which elements can be modified.
	std::set<std::string> culprits;
	for(auto& e : edges) {
		if(e.ftaint && e.ttaint && !CW[{e.from, true}] && CW[{e.to, true}]) {
			std::string key = "D" + std::to_string(DD) + "|safety|" + shorten(decay_name(e.from)) + " ." + e.acc + " -> " + shorten(e.to);
			if(culprits.insert(key).second) {
				mc::R.violation(key, mc::J().s("harness", "typemc").s("replay", key).s("oracle", "an expression reached through a const path lets elements be modified").s("culprit_accessor", e.acc).s("from_type", e.from).s("to_type", e.to).s("witness_path_to_source", path_to(e.from, true)).str());
			}
		}
	}
	for(auto& [k, n] : nodes) {   // const roots themselves
		if(n.taint && CW[k] && const_roots.count(k.first)) {
			// witness: shortest canonical path from the const root to a modifiable element
			std::map<NK, std::string> how; std::vector<NK> qq{k}; how[k] = shorten(n.type); std::string wit;
			for(std::size_t i = 0; i < qq.size() && wit.empty(); ++i) { for(auto& e : edges) { if(NK{e.from, e.ftaint} == qq[i] && canon.count(e.acc)) { NK t{e.to, e.ttaint}; if(!how.count(t)) { how[t] = how[qq[i]] + "." + e.acc; qq.push_back(t); auto it = nodes.find(t); if(it != nodes.end() && it->second.is_elem && it->second.writable) { wit = how[t] + " : " + shorten(e.to); break; } } } } }
			mc::R.violation("D" + std::to_string(DD) + "|safety|const-root-modifiable|" + shorten(n.type), mc::J().s("harness", "typemc").s("replay", n.type).s("oracle", "a modifiable element is reachable from a const root by canonical element access").s("witness", wit).str());
		}
	}
	// ---- completeness: the same paths from a non-const array / forwarded view yield modifiable references.
	// Culprit = untainted edge from a node whose own type lets elements be modified to a node (with canonical evidence) that does not; +x (an independent copy) is not an access path.
	std::set<std::string> gaps;
	for(auto& e : edges) {
		if(!e.ftaint && !e.ttaint && e.acc != "decay_" && CW[{e.from, false}] && !CW[{e.to, false}] && evidence[{e.to, false}]) {
			auto family = [&](std::string t) { t = shorten(decay_name(t)); auto lt = t.find('<'); return lt == std::string::npos ? t : t.substr(0, lt); };
			std::string key = "completeness|" + family(e.from) + " ." + e.acc + " -> " + (nodes[{e.to, false}].is_elem ? "read-only element" : "read-only " + family(e.to));  // accessor x type family: the call site
			if(gaps.insert(key).second) { mc::R.violation(key, mc::J().s("harness", "typemc").s("replay", key).s("oracle", "an access path from a mutable array/view yields something through which no element can be modified").s("accessor", e.acc).s("from_type", e.from).s("to_type", e.to).s("witness_path_to_source", path_to(e.from, false)).str()); }
		}
	}
	// ---- structural clauses
	auto structural = [&](char const* what, bool holds) { if(!holds) { mc::R.violation(std::string("D") + std::to_string(DD) + "|structural|" + what, mc::J().s("harness", "typemc").s("replay", what).str()); } mc::R.add("structural_probes"); };
	using Sub = multi::subarray<int, DD>; using CSub = multi::const_subarray<int, DD>; using Ref = multi::array_ref<int, DD>;
	structural("subarray not copy-constructible from a named view", !std::is_constructible_v<Sub, Sub&> && !std::is_constructible_v<Sub, Sub const&>);
	structural("const_subarray not copy-constructible from a named view", !std::is_constructible_v<CSub, CSub&> && !std::is_constructible_v<CSub, CSub const&>);
	structural("array_ref not copy-constructible from a named array_ref", !std::is_constructible_v<Ref, Ref&> && !std::is_constructible_v<Ref, Ref const&>);
	structural("no reextent on views", !decltype(P::re(std::declval<Sub&>()))::value && !decltype(P::re(std::declval<Ref&>()))::value);
	structural("no clear on views", !decltype(P::cl(std::declval<Sub&>()))::value && !decltype(P::cl(std::declval<Ref&>()))::value);
	long transitions = static_cast<long>(edges.size());
	mc::R.add("states", static_cast<long long>(nodes.size())); mc::R.add("transitions", transitions); mc::R.add("distinct_nontrivial", elem_nodes); mc::R.add("tainted_states", tainted_nodes);
	int ns = 0; for(auto& [k, n] : nodes) { if(n.is_elem && ns < 4) { mc::R.sample(mc::J().s("access_path", path_to(n.type, n.taint)).s("expression_type", shorten(n.type)).b("tainted", n.taint).b("modifiable", n.writable).str()); ++ns; } }
	mc::R.note("D=" + std::to_string(DD) + " depth=" + std::to_string(DEPTH) + " accessors=48 roots=10 states=" + std::to_string(nodes.size()) + " transitions=" + std::to_string(transitions));
	if(args.has("replay")) { for(auto& [k, v] : mc::R.viol) { if(k == args.get("replay")) { std::printf("REPLAY VIOLATION %s\n%s\n", k.c_str(), v.second.c_str()); return 1; } } std::printf("REPLAY OK (not reproduced)\n"); return 0; }
	mc::R.emit(stdout);
	return 0;
}
