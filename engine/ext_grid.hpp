// Complete grids of index extensions in dimensionality D (shared by reextmc and pairmc).  The including harness defines `constexpr int D` and has
// `using namespace hm; using vm::idx;` before including this header.
#pragma once
using Ext1 = std::pair<idx, idx>;          // [first, last)
using Ext = std::vector<Ext1>;

static std::vector<Ext1> menu1(bool thorough) {
	switch(D) {
		case 1: { std::vector<Ext1> r = {{0, 0}, {0, 1}, {0, 2}, {0, 3}, {0, 5}, {-1, 1}, {-1, 2}, {2, 4}, {1, 4}}; if(thorough) { r.push_back({0, 8}); r.push_back({3, 3}); r.push_back({-2, 5}); } return r; }
		case 2: { std::vector<Ext1> r = {{0, 0}, {0, 1}, {0, 2}, {0, 3}, {-1, 1}, {1, 3}}; if(thorough) { r.push_back({0, 5}); r.push_back({2, 4}); } return r; }
		case 3: { std::vector<Ext1> r = {{0, 0}, {0, 1}, {0, 2}, {0, 3}}; if(thorough) { r.push_back({1, 3}); } return r; }
		default: { std::vector<Ext1> r = {{0, 1}, {0, 2}, {0, 3}}; if(thorough) { r.insert(r.begin(), {0, 0}); } return r; }
	}
}
static std::vector<Ext> all_exts(bool thorough) {
	auto m = menu1(thorough); std::vector<Ext> r{{}};
	for(int j = 0; j < D; ++j) { std::vector<Ext> n; for(auto const& p : r) { for(auto e : m) { auto q = p; q.push_back(e); n.push_back(q); } } r = std::move(n); }
	if(D == 4 && !thorough) { r.push_back({{0, 0}, {0, 0}, {0, 0}, {0, 0}}); r.push_back({{0, 2}, {0, 0}, {0, 2}, {0, 1}}); }
	return r;
}
static std::string str(Ext const& e) { std::string r; for(auto p : e) { r += "[" + std::to_string(p.first) + "," + std::to_string(p.second) + ")"; } return r; }
static auto X(Ext const& e) { std::vector<idx> f, s; for(auto p : e) { f.push_back(p.first); s.push_back(p.second - p.first); } return vo::make_extensions<D>(f, s); }
static idx count(Ext const& e) { idx n = 1; for(auto p : e) { n *= (p.second - p.first); } return n; }
static int code(idx const* t) { int c = 0, m = 1; for(int j = 0; j < D; ++j) { c += static_cast<int>(t[j] + 3)*m; m *= 11; } return c + 100000; }
template<class F> void for_tuples(Ext const& e, F&& f) {
	if(count(e) == 0) { return; }
	idx t[4] = {0, 0, 0, 0}; for(int j = 0; j < D; ++j) { t[j] = e[static_cast<std::size_t>(j)].first; }
	for(;;) {
		f(static_cast<idx const*>(t));
		int j = D - 1; for(; j >= 0; --j) { auto u = static_cast<std::size_t>(j); if(++t[j] < e[u].second) { break; } t[j] = e[u].first; }
		if(j < 0) { return; }
	}
}
static bool inside(Ext const& e, idx const* t) { if(count(e) == 0) { return false; } for(int j = 0; j < D; ++j) { auto u = static_cast<std::size_t>(j); if(t[j] < e[u].first || t[j] >= e[u].second) { return false; } } return true; }
template<class A> decltype(auto) at(A&& a, idx const* t) { if constexpr(std::decay_t<A>::rank_v == 1) { return a[t[0]]; } else { return at(a[t[0]], t + 1); } }

