// C17 — Boost.Serialization round trips.  (1) arrays: D x shape x element type x archive kind x prior state of the loading array;
// (2) views: all ordered pairs (saved view, loading view) of equal extents from the E1 state sets of two guard-buffer roots.
#include <boost/archive/binary_iarchive.hpp>
#include <boost/archive/binary_oarchive.hpp>
#include <boost/archive/text_iarchive.hpp>
#include <boost/archive/text_oarchive.hpp>
#include <boost/archive/xml_iarchive.hpp>
#include <boost/archive/xml_oarchive.hpp>
#include <boost/serialization/nvp.hpp>
#include <boost/serialization/string.hpp>

#include <sstream>

#include "../engine/view_model.hpp"
#include "../engine/view_oracle.hpp"

#include <boost/multi/detail/serialization.hpp>

using namespace vm;

template<int D, class Root> void run_root(Root&, int const*, idx, std::vector<idx> const&, std::string const&, std::string const&, Config const&, std::set<std::string> const&) {}
#include "../engine/view_roots.hpp"

static char const* const kinds[] = {"text", "binary", "xml"};
static long g_runs = 0, g_nontrivial = 0;

template<class A> std::string save(A const& a, int kind) {
	std::ostringstream os;
	{
		if(kind == 0) { boost::archive::text_oarchive oa(os); oa << boost::serialization::make_nvp("arr", a); }
		if(kind == 1) { boost::archive::binary_oarchive oa(os); oa << boost::serialization::make_nvp("arr", a); }
		if(kind == 2) { boost::archive::xml_oarchive oa(os); oa << boost::serialization::make_nvp("arr", a); }
	}
	return os.str();
}
template<class A> void load(A& a, std::string const& s, int kind) {
	std::istringstream is(s);
	if(kind == 0) { boost::archive::text_iarchive ia(is); ia >> boost::serialization::make_nvp("arr", a); }
	if(kind == 1) { boost::archive::binary_iarchive ia(is); ia >> boost::serialization::make_nvp("arr", a); }
	if(kind == 2) { boost::archive::xml_iarchive ia(is); ia >> boost::serialization::make_nvp("arr", a); }
}

template<class T> T gen(idx i, int salt);
template<> int gen<int>(idx i, int salt) { return static_cast<int>(100*salt + i); }
template<> double gen<double>(idx i, int salt) { return 0.5*static_cast<double>(i) + salt; }
template<> std::string gen<std::string>(idx i, int salt) { return std::string(static_cast<std::size_t>(i % 3), 'a' + static_cast<char>(salt)) + std::to_string(i) + (i % 2 ? " x y" : ""); }
template<> multi::array<int, 1> gen<multi::array<int, 1>>(idx i, int salt) { multi::array<int, 1> r(multi::extensions_t<1>{multi::iextension{i % 3}}); for(idx k = 0; k < i % 3; ++k) { r[k] = static_cast<int>(salt*10 + k + i); } return r; }
template<class T> char const* tname();
template<> char const* tname<int>() { return "int"; }
template<> char const* tname<double>() { return "double"; }
template<> char const* tname<std::string>() { return "std::string"; }
template<> char const* tname<multi::array<int, 1>>() { return "array<int,1>"; }

template<class A> void fill(A& a, int salt) { using T = typename A::element_type; idx n = a.num_elements(); for(idx i = 0; i < n; ++i) { a.data_elements()[i] = gen<T>(i, salt); } }

static std::string ext_str(std::vector<idx> const& e) { std::string s = "{"; for(std::size_t i = 0; i < e.size(); ++i) { s += (i ? "," : ""); s += std::to_string(e[i]); } return s + "}"; }

// prior states of the loading array
enum Prior { P_DEFAULT, P_SAME, P_OTHER_COUNT, P_PERMUTED, P_CLEARED, P_MOVED_FROM, P_BIGGER, P_SAME_SIZES_OTHER_BASES, NPRIOR };
static char const* const prior_name[] = {"default-constructed", "same extents (other values)", "different extents, different count", "permuted extents (same count)", "cleared", "moved-from", "larger in every dimension", "same sizes, different index bases"};

template<class T, int D>
void arrays_grid(std::vector<std::vector<idx>> const& shapes, std::string const& only) {
	using Arr = multi::array<T, D>;
	for(auto const& sh : shapes) {
		for(int kind = 0; kind < 3; ++kind) {
			for(int pr = 0; pr < NPRIOR; ++pr) { for(int sb = 0; sb < (D >= 1 ? 2 : 1); ++sb) {   // sb: the saved array is zero-based / carries index bases 1,2,3,..
				std::string rp = std::string(tname<T>()) + "/" + std::to_string(D) + "/" + ext_str(sh) + "/" + kinds[kind] + "/" + std::to_string(pr) + (sb ? "/rebased" : "");
				std::vector<idx> fa(sh.size(), 0), fb(sh.size(), -1); if(sb) { for(std::size_t q = 0; q < fa.size(); ++q) { fa[q] = static_cast<idx>(q + 1); } }
				if(!only.empty() && only != rp) { continue; }
				mc::cur_set(std::string("array<") + tname<T>() + "," + std::to_string(D) + ">|" + kinds[kind] + "|prior:" + prior_name[pr], rp);
				Arr a(vo::make_extensions<D>(fa, sh)); fill(a, 1);
				std::unique_ptr<Arr> b;
				std::vector<idx> other(sh), perm(sh), big(sh);
				for(auto& x : other) { x += 1; } for(auto& x : big) { x += 2; }
				if constexpr(D >= 2) { std::rotate(perm.begin(), perm.begin() + 1, perm.end()); }
				switch(pr) {
					case P_DEFAULT: b = std::make_unique<Arr>(); break;
					case P_SAME: b = std::make_unique<Arr>(vo::make_extensions<D>(sh)); fill(*b, 2); break;
					case P_OTHER_COUNT: b = std::make_unique<Arr>(vo::make_extensions<D>(other)); fill(*b, 2); break;
					case P_PERMUTED: if(D < 2 || perm == sh) { continue; } b = std::make_unique<Arr>(vo::make_extensions<D>(perm)); fill(*b, 2); break;
					case P_CLEARED: b = std::make_unique<Arr>(vo::make_extensions<D>(other)); fill(*b, 2); b->clear(); break;
					case P_MOVED_FROM: { b = std::make_unique<Arr>(vo::make_extensions<D>(other)); fill(*b, 2); Arr sink(std::move(*b)); (void)sink; break; }
					case P_BIGGER: b = std::make_unique<Arr>(vo::make_extensions<D>(big)); fill(*b, 2); break;
					case P_SAME_SIZES_OTHER_BASES: if(D < 1) { continue; } b = std::make_unique<Arr>(vo::make_extensions<D>(fb, sh)); fill(*b, 2); break;
					default: continue;
				}
				++g_runs; if(a.num_elements() >= 2) { ++g_nontrivial; }
				std::string ar = save(a, kind);
				load(*b, ar, kind);
				std::string why;
				if(!(b->extensions() == a.extensions())) { why = "extensions"; }
				else if(b->num_elements() != a.num_elements()) { why = "num_elements"; }
				else { for(idx i = 0; i < a.num_elements(); ++i) { if(!(b->data_elements()[i] == a.data_elements()[i])) { why = "elements"; break; } } }
				if(why.empty() && !(*b == a)) { why = "operator=="; }
				if(!why.empty()) {
					mc::R.violation(std::string("array<") + tname<T>() + "," + std::to_string(D) + ">|" + kinds[kind] + "|prior:" + prior_name[pr] + "|" + why,
						mc::J().s("harness", "sermc").s("replay", rp).s("element_type", tname<T>()).n("D", D).s("extents", ext_str(sh)).s("archive", kinds[kind]).s("prior_state", prior_name[pr]).s("saved_index_bases", sb ? "1,2,3,.." : "0").s("oracle", why).str());
				}
				if(mc::R.samples.size() < 3 && pr == P_PERMUTED && a.num_elements() >= 4) { mc::R.sample(mc::J().s("case", rp).s("prior_state", prior_name[pr]).n("archive_bytes", static_cast<long long>(ar.size())).str()); }
			} }
		}
	}
}

// D = 0
template<class T> void zero_dim(std::string const& only) {
	for(int kind = 0; kind < 3; ++kind) {
		std::string rp = std::string(tname<T>()) + "/0/{}/" + kinds[kind] + "/0";
		if(!only.empty() && only != rp) { continue; }
		mc::cur_set(std::string("array<") + tname<T>() + ",0>|" + kinds[kind], rp);
		multi::array<T, 0> a(gen<T>(7, 1)), b(gen<T>(3, 2));
		++g_runs;
		std::string ar = save(a, kind); load(b, ar, kind);
		if(!(static_cast<T const&>(b) == static_cast<T const&>(a))) { mc::R.violation(std::string("array<") + tname<T>() + ",0>|" + kinds[kind] + "|elements", mc::J().s("harness", "sermc").s("replay", rp).str()); }
	}
}

// ---- views
struct Saved { Hist h; MView m; };
template<int D>
void views_pairs(std::vector<idx> const& sizes, int depth, std::string const& only) {
	idx N = 1; for(auto s : sizes) { N *= s; }
	vo::GuardBuffer<int> g1(N), g2(N);
	auto exts = vo::make_extensions<D>(sizes);
	multi::array_ref<int, D> r1(exts, g1.data()), r2(exts, g2.data());
	Config cfg; cfg.maxdepth = depth; cfg.menu0.call_full = false; cfg.menu0.call_maxargs = 2; cfg.menu.call_full = false; cfg.menu.call_maxargs = 1;
	std::vector<Saved> saved; std::set<std::string> noskip;
	bfs(r1, root_model(sizes), cfg, noskip, [&](auto&& v, MView const& m, Hist const& h) -> bool { if(vo::check_view(v, m, g1.data(), N).bad) { return false; } saved.push_back(Saved{h, m}); return true; });
	std::map<std::string, std::vector<std::size_t>> groups;
	for(std::size_t i = 0; i < saved.size(); ++i) { std::string k = std::to_string(saved[i].m.rank()) + ":"; for(auto const& d : saved[i].m.d) { k += std::to_string(d.size) + ","; } groups[k].push_back(i); }
	std::string prefix = vr::sizes_str(sizes) + "/";
	long pairs = 0;
	for(auto const& [sig, mem] : groups) {
		for(auto si : mem) { for(auto di : mem) {
			auto const& s = saved[si]; auto const& d = saved[di];
			if(d.m.ro || s.m.ro) { continue; }
			if(mc::past_deadline()) { mc::R.exhaustive = false; return; }
			int kind = static_cast<int>((pairs++) % 3);  // archive kind cycles over pairs; all three kinds are covered within every extents class of size >= 3
			std::string rp = "view/" + prefix + hist_str(s.h) + "/" + hist_str(d.h) + "/" + kinds[kind];
			if(!only.empty() && only != rp) { continue; }
			mc::cur_set(std::string("view|") + kinds[kind], rp);
			for(idx i = 0; i < N; ++i) { g1.data()[i] = static_cast<int>(1000 + i); g2.data()[i] = static_cast<int>(2000 + i); }
			std::vector<int> e2(g2.data(), g2.data() + N), e1(g1.data(), g1.data() + N);
			std::vector<idx> os, od; for_each_index(s.m, [&](std::vector<idx> const&, idx off) { os.push_back(off); }); for_each_index(d.m, [&](std::vector<idx> const&, idx off) { od.push_back(off); });
			for(std::size_t k = 0; k < od.size(); ++k) { e2[static_cast<std::size_t>(od[k])] = e1[static_cast<std::size_t>(os[k])]; }
			std::string ar; bool ran = false;
			bool saved_ok = false;
			walk(r1(), s.h.data(), static_cast<int>(s.h.size()), [&](auto&& sv) { if constexpr(!is_ro_v<decltype(sv)>) { ar = save(sv, kind); saved_ok = true; } });  // api gap: serialize() of a const_subarray (read-only view type) does not compile on this tree
			if(!saved_ok) { continue; }
			walk(r2(), d.h.data(), static_cast<int>(d.h.size()), [&](auto&& dv) { if constexpr(!is_ro_v<decltype(dv)>) { load(dv, ar, kind); ran = true; } });
			if(!ran) { continue; }
			++g_runs; if(od.size() >= 2) { ++g_nontrivial; }
			std::string why;
			if(!std::equal(e2.begin(), e2.end(), g2.data())) { why = "loaded-view-contents"; }
			else if(!std::equal(e1.begin(), e1.end(), g1.data())) { why = "saving-modified-source"; }
			else if(!g1.intact() || !g2.intact()) { why = "guard"; }
			if(!why.empty()) {
				mc::R.violation("view|D" + std::to_string(s.m.rank()) + "|" + kinds[kind] + "|" + why, mc::J().s("harness", "sermc").s("replay", rp).s("saved_view", hist_str(s.h)).s("loading_view", hist_str(d.h)).s("archive", kinds[kind]).s("oracle", why).str());
			}
			if(mc::R.samples.size() < 6 && od.size() >= 4 && (pairs % 101) == 0) { mc::R.sample(mc::J().s("case", rp).n("elements", static_cast<long long>(od.size())).str()); }
		} }
	}
	mc::R.note("views of " + vr::sizes_str(sizes) + ": states=" + std::to_string(saved.size()) + " pairs=" + std::to_string(pairs) + " depth=" + std::to_string(depth));
}

int main(int argc, char** argv) {
	mc::Args args(argc, argv);
	bool thorough = args.get("tier", "quick") == "thorough";
	mc::set_deadline(static_cast<double>(args.geti("deadline", 3000)));
	std::string only = args.get("replay", "");
	auto body = [&](std::set<std::string> const&) {
		std::vector<std::vector<idx>> s1 = {{0}, {1}, {3}, {5}}, s2 = {{0, 0}, {0, 3}, {2, 0}, {1, 1}, {2, 3}, {3, 2}}, s3 = {{0, 0, 0}, {2, 0, 2}, {1, 2, 3}, {2, 3, 2}}, s4 = {{0, 0, 0, 0}, {2, 1, 2, 3}, {1, 2, 0, 2}};
		if(thorough) { s2.push_back({4, 4}); s2.push_back({1, 5}); s3.push_back({3, 3, 3}); s4.push_back({2, 2, 2, 2}); }
		bool v = only.rfind("view/", 0) == 0;
		if(!v) {
			zero_dim<int>(only); zero_dim<double>(only); zero_dim<std::string>(only);
			arrays_grid<int, 1>(s1, only); arrays_grid<int, 2>(s2, only); arrays_grid<int, 3>(s3, only); arrays_grid<int, 4>(s4, only);
			arrays_grid<double, 1>(s1, only); arrays_grid<double, 2>(s2, only); arrays_grid<double, 3>(s3, only);
			arrays_grid<std::string, 1>(s1, only); arrays_grid<std::string, 2>(s2, only); arrays_grid<std::string, 3>(s3, only);
			arrays_grid<multi::array<int, 1>, 1>(s1, only); arrays_grid<multi::array<int, 1>, 2>(s2, only);
			// element counts around the powers of two a blocked / buffered save-load loop would use (flat element block of array, array_ref): 2^k - 1, 2^k, 2^k + 1, 2*2^k
			std::vector<std::vector<idx>> big1, big3 = {{8, 8, 8}, {4, 8, 16}, {8, 8, 9}, {16, 16, 4}};
			for(idx pw : {idx{64}, idx{128}, idx{256}, idx{512}, idx{1024}, idx{4096}}) { big1.push_back({pw - 1}); big1.push_back({pw}); big1.push_back({pw + 1}); big1.push_back({2*pw}); big1.push_back({3*pw}); }
			if(thorough) { for(idx pw : {idx{2048}, idx{8192}, idx{16384}, idx{65536}}) { big1.push_back({pw - 1}); big1.push_back({pw}); big1.push_back({pw + 1}); } big3.push_back({16, 16, 16}); big3.push_back({32, 32, 4}); }
			arrays_grid<int, 1>(big1, only); arrays_grid<double, 1>(big1, only); arrays_grid<int, 3>(big3, only); arrays_grid<std::string, 3>({{8, 8, 8}}, only);
		}
		if(only.empty() || v) {
			int depth = thorough ? 3 : 2;
			views_pairs<1>({6}, depth + 1, only); views_pairs<2>({2, 3}, depth, only); views_pairs<2>({4, 2}, depth, only); views_pairs<3>({2, 3, 2}, depth, only);
			if(thorough) { views_pairs<4>({2, 1, 2, 3}, 1, only); }
		}
		mc::R.add("evaluations", g_runs); mc::R.add("distinct_nontrivial", g_nontrivial);
		mc::R.emit(stdout);
	};
	if(!only.empty()) { std::set<std::string> none; body(none); std::printf("REPLAY %s (%ld case(s) run)\n", mc::R.viol.empty() ? "OK" : "VIOLATION", g_runs); return mc::R.viol.empty() ? 0 : 1; }
	return mc::supervise(body);
}
