#!/bin/bash
# Runs the repository's own test-suite (78 tests) with no verification guard defined (none exists: no hooks are used).
# A build failure is fatal: stale test binaries must never be run.
set -e -o pipefail
R=${1:-/repo}
cd "$R"
if [ ! -f _build/build.ninja ]; then cmake -G Ninja -B _build -S . -DCMAKE_BUILD_TYPE=RelWithDebInfo -DCMAKE_CXX_FLAGS=-Wno-error >/dev/null; fi
if ! cmake --build _build -j"$(nproc)" > _build/verif_build.log 2>&1; then echo "BUILD FAILED"; grep -E "error|FAILED" _build/verif_build.log | head -10 | cut -c1-300; exit 1; fi
tail -1 _build/verif_build.log
OMPI_ALLOW_RUN_AS_ROOT=1 OMPI_ALLOW_RUN_AS_ROOT_CONFIRM=1 ctest --test-dir _build -j8 --timeout 900 2>&1 | tail -5
