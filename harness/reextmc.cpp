// C06 (reextent clause) — the complete grid of (old extensions, new extensions) pairs in dimensionality D = 1..4 (RX_D), per-dimension index
// extensions from a small menu (empty, sizes 1..3(5), shifted index bases), x every reextent form (lvalue reextent(x), reextent(x, fill), rvalue
// reextent(x)) x four element types (int: trivially default constructible; Q: user-provided default constructor, trivially copyable; E: tracked lifetime + ledger allocator; R: aggregate with an implicit non-trivial default constructor and an uninitialised scalar member, over the pre-filling ledger allocator),
// plus chains old -> mid -> new (states reached from non-initial states) in low dimensionality.  Oracle per pair: extensions() equal the request, every
// index tuple of the intersection keeps its value, every other element equals the fill value (or a value-initialised element for Q/E), same extents keep
// the storage (no allocation, same data_elements()), the tracked registry is clean and nothing leaks.  Every batch runs in a forked child.
#include "../engine/hist_model.hpp"

#ifndef RX_D
#define RX_D 2
#endif
constexpr int D = RX_D;
using namespace hm;
using vm::idx;
using instr::W;

#include "../engine/ext_grid.hpp"

enum Form { F_LVALUE, F_FILL, F_RVALUE, NFORMS };
static char const* const fname[] = {"a.reextent(x)", "a.reextent(x,fill)", "std::move(a).reextent(x)"};
constexpr int FILL = -7;
constexpr int UNSPEC = -123456;   // model value of an element whose value the property leaves unspecified

// aggregate with an IMPLICIT non-trivial default constructor (string member) and a scalar member without initialiser: value-initialisation zeroes v, default-initialisation leaves it indeterminate
struct R { std::string tag; int v; };
inline int val(R const& r) { return r.v; }
using instr::val;
template<class T> T make(int x) { if constexpr(std::is_same_v<T, R>) { return R{"r", x}; } else { return T(x); } }
template<class T> struct TypeInfo;
template<> struct TypeInfo<R> { static constexpr char const* name = "aggregate{string,int}"; static constexpr bool value_init = true; using alloc = instr::LA<R>; };
template<> struct TypeInfo<int> { static constexpr char const* name = "int"; static constexpr bool value_init = false; using alloc = std::allocator<int>; };
template<> struct TypeInfo<instr::Q> { static constexpr char const* name = "Q"; static constexpr bool value_init = true; using alloc = std::allocator<instr::Q>; };
template<> struct TypeInfo<instr::E> { static constexpr char const* name = "tracked"; static constexpr bool value_init = true; using alloc = instr::LA<instr::E>; };

// model: map from index tuple code to value, as a function
struct Model { Ext e; std::vector<std::pair<std::vector<idx>, int>> vals; };
static int model_get(Model const& m, idx const* t) { for(auto const& [k, v] : m.vals) { bool eq = true; for(int j = 0; j < D; ++j) { if(k[static_cast<std::size_t>(j)] != t[j]) { eq = false; } } if(eq) { return v; } } return UNSPEC; }
static Model model_fresh(Ext const& e) { Model m; m.e = e; for_tuples(e, [&](idx const* t) { m.vals.push_back({std::vector<idx>(t, t + D), code(t)}); }); return m; }
static Model model_reextent(Model const& o, Ext const& nw, int form, bool value_init) {
	Model m; m.e = nw;
	// std::move(a).reextent(x) is the library's "contents are going away" form (test/reextent.cpp: "after move the original elements might not be the same"):
	// only the same-extents case keeps the values; otherwise the elements are valid (live, value-initialised or old) but their values are not part of C06
	if(form == F_RVALUE && !(o.e == nw)) { for_tuples(nw, [&](idx const* t) { m.vals.push_back({std::vector<idx>(t, t + D), UNSPEC}); }); return m; }
	for_tuples(nw, [&](idx const* t) {
		int v = inside(o.e, t) ? model_get(o, t) : (form == F_FILL ? FILL : (value_init ? 0 : UNSPEC));
		m.vals.push_back({std::vector<idx>(t, t + D), v});
	});
	return m;
}

template<class T>
static Outcome run_chain(std::vector<Ext> const& chain, std::vector<int> const& forms) {
	using Alloc = typename TypeInfo<T>::alloc; using Arr = multi::array<T, D, Alloc>;
	Outcome out; W.reset();
	auto fail = [&](std::string o, std::string d) { if(out.ok) { out.ok = false; out.oracle = std::move(o); out.detail = std::move(d); } };
	{
		Arr a(X(chain[0]));
		if constexpr(TypeInfo<T>::value_init) { for_tuples(chain[0], [&](idx const* t) { if(val(static_cast<T const&>(at(a, t))) != 0) { fail("constructor(extents)-element-not-value-initialised", ""); } }); }
		for_tuples(chain[0], [&](idx const* t) { at(a, t) = make<T>(code(t)); });
		Model m = model_fresh(chain[0]);
		for(std::size_t s = 1; s < chain.size() && out.ok; ++s) {
			int form = forms[s - 1];
			bool same_ext = chain[s - 1] == chain[s] && count(chain[s]) > 0;
			auto* before = rawp(a.data_elements()); long al = W.nalloc, dl = W.ndealloc; long const qd = instr::Q::ndefault;
			idx common = 0; for_tuples(chain[s], [&](idx const* t) { if(inside(chain[s - 1], t)) { ++common; } });
			switch(form) {
				case F_LVALUE: a.reextent(X(chain[s])); break;
				case F_FILL: a.reextent(X(chain[s]), make<T>(FILL)); break;
				default: { auto&& r = std::move(a).reextent(X(chain[s])); if(&r != &a) { fail("rvalue-reextent-returns-other-object", ""); } break; }
			}
			m = model_reextent(m, chain[s], form, TypeInfo<T>::value_init);
			// C08: every element of the new block that is not copy-constructed from an old element or from the fill value must have been default-constructed (counted for Q, whose
			// copies cannot be tracked): the library may construct only the new positions or the whole block and then assign the common part
			if constexpr(std::is_same_v<T, instr::Q>) {
				if(form == F_LVALUE && !same_ext && count(chain[s]) > 0) {
					long const made = instr::Q::ndefault - qd; idx const nn = count(chain[s]);
					if(made != nn && made != nn - common) { fail("elements-of-the-new-block-not-constructed", std::to_string(made) + " default constructions for a new block of " + std::to_string(nn) + " elements (" + std::to_string(common) + " in common with the old extents)"); }
				}
			}
			if(same_ext) {
				if(rawp(a.data_elements()) != before) { fail("same-extents-moved-storage", "reextent to the current extents changed data_elements()"); }
				if(W.nalloc != al || W.ndealloc != dl) { fail("same-extents-reallocated", ""); }
			}
			if(a.num_elements() != count(chain[s])) { fail("num_elements", std::to_string(a.num_elements()) + " expected " + std::to_string(count(chain[s]))); break; }
			if(count(chain[s]) > 0 && !(a.extensions() == X(chain[s]))) { fail("extensions", "extensions() differ from the request"); break; }
			if(count(chain[s]) == 0 && !a.is_empty() && a.num_elements() != 0) { fail("not-empty", ""); break; }
			for_tuples(chain[s], [&](idx const* t) {
				if(!out.ok) { return; }
				int want = model_get(m, t); if(want == UNSPEC) { return; }
				int got = val(static_cast<T const&>(at(a, t)));
				if(got != want) {
					std::string ts; for(int j = 0; j < D; ++j) { ts += (j ? "," : "") + std::to_string(t[j]); }
					bool common = want >= 100000;
					fail(common ? "common-element-lost" : (want == FILL ? "new-element-not-filled" : "new-element-not-value-initialised"), "element (" + ts + ") = " + std::to_string(got) + " expected " + std::to_string(want));
				}
			});
			if constexpr(std::is_same_v<T, instr::E>) {
				if(out.ok && static_cast<idx>(W.alive.size()) != count(chain[s])) { fail("live-elements", std::to_string(W.alive.size()) + " live tracked elements, array holds " + std::to_string(count(chain[s]))); }
				if(out.ok && W.blocks.size() > 1) { fail("extra-block", std::to_string(W.blocks.size()) + " blocks outstanding"); }
			}
			if(!W.errs.empty()) { fail("registry:" + W.errs[0], ""); }
		}
	}
	if(out.ok) { if(!W.errs.empty()) { out.ok = false; out.oracle = "registry-at-destruction:" + W.errs[0]; } else if(!W.blocks.empty()) { out.ok = false; out.oracle = "leak-block"; } else if(!W.alive.empty()) { out.ok = false; out.oracle = "leak-element"; } }
	return out;
}

static long g_evals = 0, g_nonempty_common = 0; static std::string g_prop = "all";

template<class T>
static void grid(std::vector<Ext> const& exts, bool chains, long shard, long nshards) {
	std::string tn = TypeInfo<T>::name;
	for(std::size_t oi = 0; oi < exts.size(); ++oi) {
		if(static_cast<long>(oi % static_cast<std::size_t>(nshards)) != shard) { continue; }
		if(mc::past_deadline()) { mc::R.exhaustive = false; return; }
		auto const& o = exts[oi];
		// batch: every (new, form) for this old
		struct Item { std::vector<Ext> chain; std::vector<int> forms; };
		std::vector<Item> items;
		for(auto const& nw : exts) { for(int f = 0; f < NFORMS; ++f) { items.push_back({{o, nw}, {f}}); } }
		if(chains) { for(auto const& mid : exts) { for(auto const& nw : exts) { for(int f = 0; f < 2; ++f) { items.push_back({{o, mid, nw}, {f, 1 - f}}); } } } }
		mc::cur_set("reextent", tn + ":" + str(o));
		auto outs = isolated(static_cast<int>(items.size()), [&](int i) { auto const& it = items[static_cast<std::size_t>(i)]; return run_chain<T>(it.chain, it.forms); });
		for(std::size_t i = 0; i < items.size(); ++i) {
			++g_evals;
			auto const& it = items[i];
			{ Ext const& a = it.chain[it.chain.size() - 2]; Ext const& b = it.chain.back(); bool common = false; for_tuples(b, [&](idx const* t) { if(inside(a, t)) { common = true; } }); if(common) { ++g_nonempty_common; } }
			if(outs[i].ok) { continue; }
			{ bool monitor = outs[i].oracle.rfind("registry", 0) == 0 || outs[i].oracle.rfind("leak", 0) == 0 || outs[i].oracle.rfind("elements-of-the-new-block-not-constructed", 0) == 0 || outs[i].oracle.rfind("live-elements", 0) == 0 || outs[i].oracle.rfind("extra-block", 0) == 0;
			  std::string owner = monitor ? "C08" : "C06"; if(g_prop != "all" && g_prop != owner) { continue; } }
			std::string rp = tn; for(auto const& e : it.chain) { rp += "|" + str(e); } rp += "|"; for(auto f : it.forms) { rp += std::to_string(f); }
			std::string opn = fname[it.forms.back()];
			std::string orc = outs[i].oracle.substr(0, outs[i].oracle.find('('));
			mc::R.violation("D" + std::to_string(D) + "|" + tn + "|" + opn + "|" + orc, mc::J().s("harness", "reextmc").s("replay", rp).s("element_type", tn).s("old_extensions", str(it.chain[it.chain.size() - 2])).s("new_extensions", str(it.chain.back())).s("chain_length", std::to_string(it.chain.size() - 1)).s("op", opn).s("oracle", outs[i].oracle).s("detail", outs[i].detail).str());
		}
		if(mc::R.samples.size() < 3 && oi == exts.size()/2) { mc::R.sample(mc::J().s("config", "reextmc D=" + std::to_string(D) + " element=" + tn).s("old_extensions", str(o)).s("new_extensions", "all " + std::to_string(exts.size()) + " of the grid").s("forms", "reextent(x), reextent(x,fill), std::move(a).reextent(x)").str()); }
	}
}

static Ext parse_ext(std::string const& s) { Ext e; std::size_t p = 0; while((p = s.find('[', p)) != std::string::npos) { auto c = s.find(',', p); auto q = s.find(')', c); e.push_back({std::atol(s.substr(p + 1, c - p - 1).c_str()), std::atol(s.substr(c + 1, q - c - 1).c_str())}); p = q; } return e; }

int main(int argc, char** argv) {
	mc::Args args(argc, argv);
	bool thorough = args.get("tier", "quick") == "thorough";
	long shard = args.geti("shard", 0), nshards = args.geti("nshards", 1);
	mc::set_deadline(static_cast<double>(args.geti("deadline", 3000)));
	if(args.has("replay")) {
		std::string r = args.get("replay"); std::vector<std::string> f; { std::size_t a = 0; for(;;) { auto t = r.find('|', a); if(t == std::string::npos) { f.push_back(r.substr(a)); break; } f.push_back(r.substr(a, t - a)); a = t + 1; } }
		if(f.size() < 4) { std::printf("REPLAY cannot parse\n"); return 2; }
		std::vector<Ext> chain; for(std::size_t i = 1; i + 1 < f.size(); ++i) { chain.push_back(parse_ext(f[i])); }
		std::vector<int> forms; for(char c : f.back()) { forms.push_back(c - '0'); }
		auto outs = isolated(1, [&](int) { return f[0] == "int" ? run_chain<int>(chain, forms) : f[0] == "Q" ? run_chain<instr::Q>(chain, forms) : f[0] == "tracked" ? run_chain<instr::E>(chain, forms) : run_chain<R>(chain, forms); });
		std::printf("REPLAY %s %s %s\n", outs[0].ok ? "OK" : "VIOLATION", outs[0].oracle.c_str(), outs[0].detail.c_str()); return outs[0].ok ? 0 : 1;
	}
	g_prop = args.get("prop", "all");
	auto exts = all_exts(thorough);
	bool chains = D == 1 || (D == 2 && thorough);
	grid<int>(exts, chains, shard, nshards);
	grid<instr::Q>(exts, false, shard, nshards);
	grid<instr::E>(exts, chains && D == 1, shard, nshards);
	grid<R>(exts, false, shard, nshards);
	mc::R.add("evaluations", g_evals); mc::R.add("transitions", g_evals); mc::R.add("states", static_cast<long long>(exts.size())); mc::R.add("distinct_nontrivial", g_nonempty_common);
	mc::R.note("reextmc D=" + std::to_string(D) + ": " + std::to_string(exts.size()) + " index extensions (per-dimension menu of " + std::to_string(menu1(thorough).size()) + "), every ordered pair x 3 forms x 4 element types" + (chains ? " + every chain of two reextents" : "") + "; " + std::to_string(g_nonempty_common) + " evaluations with a non-empty common part");
	mc::R.emit(stdout);
	return 0;
}
